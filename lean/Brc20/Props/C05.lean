/-
C05 - A rejected indexer call changes nothing; the block protocol is enforced.

`Node` functions return the new node together with a response class; `.err k` is an error response.
(`.reject w` is not a response: it says the recorded events do not fit the model - a broken correspondence.)
-/
import Brc20.Model.Node
import Brc20.Proofs.Node
import Brc20.Proofs.ReachProps
import Brc20.Model.DriverE
import Brc20.Props.C10

namespace Brc20
open Node

/-- **Rejected = untouched**, for every entry point whose work is a single step. -/
theorem C05.addTxs_error_noop (n : Node) (ts : Nat) (h : String) (idx : Nat) (txid : Option String) (evs : List Ev)
    (k : Option Nat) (e : String) (he : (n.addTxs ts h idx txid evs k).2 = .err e) : (n.addTxs ts h idx txid evs k).1 = n := by
  exact (addTxs_err he).2

theorem C05.addRawTx_error_noop (n : Node) (ts : Nat) (h : String) (idx : Nat) (txid : String) (d : RawDecode)
    (evs : List Ev) (e : String) (he : (n.addRawTx ts h idx txid d evs).2 = .err e) : (n.addRawTx ts h idx txid d evs).1 = n := by
  cases d with
  | fail => rfl
  | wrongChain =>
    simp only [addRawTx] at he ⊢
    split <;> rfl
  | ok sender nonce =>
    simp only [addRawTx] at he ⊢
    by_cases h1 : nonce ≠ n.accountNonce sender
    · rw [if_pos h1] at he ⊢
      by_cases h2 : nonce > n.accountNonce sender ∧ nonce < n.accountNonce sender + FUTURE_NONCES
      · rw [if_pos h2] at he ⊢
        split
        · rfl
        · rename_i h3
          rw [if_neg h3] at he
          split
          · rfl
          · rename_i h4
            rw [if_neg h4] at he
            split
            · rfl
            · rename_i h5
              rw [if_neg h5] at he
              split at he <;> cases he
      · rw [if_neg h2] at he ⊢
        split <;> rfl
    · rw [if_neg h1] at he ⊢
      rcases drainCheck_cases n sender (n.accountNonce sender + 1)
        (drainPlan n sender n.nextHeight FUTURE_NONCES (n.accountNonce sender + 1)).2
        (n.addTxs ts h idx (some txid) evs
          (some (1 + (drainPlan n sender n.nextHeight FUTURE_NONCES (n.accountNonce sender + 1)).1))) with e' | ⟨_, e'⟩
      · rw [e'] at he ⊢
        exact (addTxs_err he).2
      · rw [e']

theorem C05.finalise_error_noop (n : Node) (ts : Nat) (h : String) (count : Nat) (evs : List Ev) (e : String)
    (he : (n.finaliseOne ts h count evs).2 = .err e) : (n.finaliseOne ts h count evs).1 = n := by
  exact (finaliseOne_err he).2

theorem C05.commit_error_noop (n : Node) (e : String) (he : n.commit.2 = .err e) : n.commit.1 = n := by
  unfold commit at he ⊢
  split
  · rfl
  · rename_i hw; rw [if_neg hw] at he; cases he

theorem C05.reorg_error_noop (n : Node) (target : Nat) (e : String) (he : (n.reorg target).2 = .err e) :
    (n.reorg target).1 = n := by
  unfold reorg at he ⊢
  simp only [] at he ⊢
  by_cases h1 : n.lbi.waiting ≠ 0
  · rw [if_pos h1]
  rw [if_neg h1] at he ⊢
  by_cases h2 : target > n.latestHeight
  · rw [if_pos h2]
  rw [if_neg h2] at he ⊢
  by_cases h3 : n.latestHeight - target > W
  · rw [if_pos h3]
  rw [if_neg h3] at he ⊢
  by_cases h4 : n.maxBlock.getD 0 > W + target
  · rw [if_pos h4]
  rw [if_neg h4] at he ⊢
  split at he <;> cases he

/-- `brc20_initialise`: every error is raised before anything is executed (this needed the `fix:` that checks
the genesis height first) - unless the deployment or the finalise itself is refused by the block protocol. -/
theorem C05.initialise_early_errors_noop (n : Node) (h : String) (ts height : Nat) (evs : List Ev)
    (he : (n.initialise h ts height evs).2 = .err "genesis" ∨ (n.initialise h ts height evs).2 = .err "height") :
    (n.initialise h ts height evs).1 = n := by
  unfold initialise at he ⊢
  simp only [] at he ⊢
  split
  · split <;> rfl
  · rename_i hb
    rw [hb] at he
    simp only [] at he
    by_cases hh : height ≠ n.nextHeight
    · rw [if_pos hh]
    · rw [if_neg hh] at he ⊢
      split
      · rename_i n1 ha
        rw [ha] at he
        simp only [] at he
        exfalso
        rcases he with he | he
        · rcases validateNextTx_some_mem (finaliseOne_err he).1 with h | h | h | h <;> simp at h
        · rcases validateNextTx_some_mem (finaliseOne_err he).1 with h | h | h | h <;> simp at h
      · rename_i n1 c hc ha
        rw [ha] at he
        simp only [] at he
        have hc' : ∃ e, c = .err e := by
          rcases he with he | he <;> exact ⟨_, he⟩
        obtain ⟨e, rfl⟩ := hc'
        have := (addTxs_err (by rw [ha])).2
        rw [ha] at this
        exact this

/-! ### `brc20_initialise`: every error answer, not only the early ones

`initialise` runs the controller deployment (`addTxs`, transaction 0) and then the finalise of that block. An error of
the trailing finalise after an accepted deployment would leave the deployment in place. It cannot happen: the
deployment's recorded writes exclude the block tables and the hash index, so the protocol check the finalise makes
(`validateNextTx` with count 1, the same timestamp, the same hash, the same height) passes after an accepted
deployment. -/

theorem C05.normHash_idem (h : String) (bn : Nat) : normHash (normHash h bn) bn = normHash h bn := by
  unfold normHash
  by_cases h1 : h = zeroHash
  · simp only [h1, if_true]; split <;> rfl
  · simp only [h1, if_false]

/-- after an accepted first transaction of a block whose recorded writes leave the hash index alone, the finalise of
that block with count 1, the same timestamp and the same hash passes the protocol check: it answers no error -/
theorem C05.fin_after_first_tx_no_error {n n1 : Node} {ts : Nat} {hash : String} {txid : Option String}
    {devs fevs : List Ev} (ha : n.addTxs ts hash 0 txid devs (some 1) = (n1, .ok))
    (hnorm : normHash hash n.nextHeight = hash)
    (hno : ∀ st k v, Ev.s TId.hashToNumber.name st k v ∉ devs) (e : String) :
    (n1.finaliseOne ts hash 1 fevs).2 ≠ .err e := by
  intro he
  have hok : (n.addTxs ts hash 0 txid devs (some 1)).2 = .ok := by rw [ha]
  obtain ⟨hv, _, hlen, _, _, n', hap, hn1⟩ := addTxs_ok hok
  have hfr := addTxs_block_frame n ts hash 0 txid devs (some 1)
  rw [ha] at hn1 hfr
  simp only [] at hn1 hfr
  rw [hnorm] at hv hn1
  obtain ⟨hw, _, hex⟩ := validateNextTx_none hv
  have hnh : n1.nextHeight = n.nextHeight := by
    unfold nextHeight; rw [hfr.1, hfr.2.1]
  have hlbi : n1.lbi = bumpLbi (l0 n ts hash) (txRuns devs) := by rw [hn1]
  have hl0 : l0 n ts hash = { waiting := 0, ts := ts, hash := hash, gasUsed := 0, logIndex := 0 } := by
    unfold l0; rw [if_pos hw]
  have h1w : n1.lbi.waiting = 1 := by rw [hlbi, bumpLbi_waiting, hlen 1 rfl, hl0]
  have h1t : n1.lbi.ts = ts := by rw [hlbi, bumpLbi_ts, hl0]
  have h1h : n1.lbi.hash = hash := by rw [hlbi, bumpLbi_hash, hl0]
  have hidx : (n1.t .hashToNumber).latest hash = (n.t .hashToNumber).latest hash := by
    have : n1.t = n'.t := by rw [hn1]
    rw [this]
    exact applyEvents_hashIndex hap (fun st k v hm => absurd hm (hno st k v))
  have h1e : n1.blockExists hash n.nextHeight = false := by
    rw [← hex]
    unfold blockExists blockHashAt blockNumberOf
    rw [hfr.1, hidx]
  have := (finaliseOne_err he).1
  rw [hnh, hnorm] at this
  unfold validateNextTx at this
  rw [if_neg (by omega), if_neg (by simp [h1t]), if_neg (by simp [h1h]), h1e] at this
  simp at this

/-- **A refused `initialise` changes nothing**, whatever the error. -/
theorem C05.initialise_error_noop (n : Node) (h : String) (ts height : Nat) (evs : List Ev) (e : String)
    (he : (n.initialise h ts height evs).2 = .err e) : (n.initialise h ts height evs).1 = n := by
  unfold initialise at he ⊢
  simp only [] at he ⊢
  split
  · split <;> rfl
  · rename_i hb
    rw [hb] at he
    simp only [] at he
    by_cases hh : height ≠ n.nextHeight
    · rw [if_pos hh]
    · rw [if_neg hh] at he ⊢
      have hh' : height = n.nextHeight := Decidable.not_not.mp hh
      subst hh'
      split
      · rename_i n1 ha
        rw [ha] at he
        simp only [] at he
        exact absurd he (C05.fin_after_first_tx_no_error ha (C05.normHash_idem h n.nextHeight)
          (by intro st k v hm; simp at hm) e)
      · rename_i n1 c hc ha
        rw [ha] at he
        simp only [] at he
        subst he
        have := (addTxs_err (by rw [ha])).2
        rw [ha] at this
        exact this

/-- `brc20_mine` while a block is under construction is refused without effect. -/
theorem C05.mine_waiting_noop (n : Node) (count ts : Nat) (evs : List Ev) (hw : n.lbi.waiting ≠ 0) :
    n.mine count ts evs = (n, .err "waiting") := by
  unfold mine
  rw [if_pos hw]

/-- `brc20_mine` when one of the hashes it would generate is already in use is refused without effect, before the first
block is finalised (the Rust used to finalise the blocks before the clash and then answer an error; fixed, F16). -/
theorem C05.mine_clash_noop (n : Node) (count ts : Nat) (evs : List Ev) (hw : n.lbi.waiting = 0)
    (hc : n.mineClash count = true) : n.mine count ts evs = (n, .err "exists") := by
  unfold mine
  rw [if_neg (by simpa using hw), if_pos hc]

/-! ### The block protocol -/

/-- A transaction index that is not the number of transactions already in the block is refused. -/
theorem C05.wrong_index_refused (n : Node) (ts : Nat) (h : String) (idx : Nat) (txid : Option String) (evs : List Ev)
    (k : Option Nat) (hi : n.lbi.waiting ≠ idx) : n.addTxs ts h idx txid evs k = (n, .err "idx") := by
  simp [addTxs, validateNextTx, hi]

/-- Mid-block, a timestamp differing from the block under construction is refused. -/
theorem C05.wrong_timestamp_refused (n : Node) (ts : Nat) (h : String) (txid : Option String) (evs : List Ev)
    (k : Option Nat) (hw : n.lbi.waiting ≠ 0) (ht : n.lbi.ts ≠ ts) :
    n.addTxs ts h n.lbi.waiting txid evs k = (n, .err "ts") := by
  simp [addTxs, validateNextTx, hw, ht]

/-- Mid-block, a block hash differing from the block under construction is refused. -/
theorem C05.wrong_hash_refused (n : Node) (h : String) (txid : Option String) (evs : List Ev) (k : Option Nat)
    (hw : n.lbi.waiting ≠ 0) (hh : n.lbi.hash ≠ normHash h n.nextHeight) :
    n.addTxs n.lbi.ts h n.lbi.waiting txid evs k = (n, .err "hash") := by
  simp [addTxs, validateNextTx, hw, hh]

/-- A finalise with the wrong transaction count is refused. -/
theorem C05.wrong_count_refused (n : Node) (ts : Nat) (h : String) (count : Nat) (evs : List Ev)
    (hc : n.lbi.waiting ≠ count) : n.finaliseOne ts h count evs = (n, .err "idx") := by
  simp [finaliseOne, validateNextTx, hc]

/-- A block hash that already exists, or a height that already has a hash, is refused (first transaction of a
block and finalise alike). -/
theorem C05.existing_block_refused (n : Node) (ts : Nat) (h : String) (txid : Option String) (evs : List Ev) (k : Option Nat)
    (hw : n.lbi.waiting = 0) (hx : n.blockExists (normHash h n.nextHeight) n.nextHeight = true) :
    n.addTxs ts h 0 txid evs k = (n, .err "exists") ∧ n.finaliseOne ts h 0 evs = (n, .err "exists") := by
  simp [addTxs, finaliseOne, validateNextTx, hw, hx]

/-- Commit and reorg while a block is under construction are refused. -/
theorem C05.commit_reorg_mid_block_refused (n : Node) (target : Nat) (hw : n.lbi.waiting ≠ 0) :
    n.commit = (n, .err "waiting") ∧ n.reorg target = (n, .err "waiting") := by
  simp [commit, reorg, hw]

/-- Consequently a history with its rejected calls removed reaches the same node: a rejected step is the identity. -/
theorem C05.rejected_removable (f : Node → Node × Class) (n : Node) (e : String) (he : (f n).2 = .err e)
    (hn : ∀ m e', (f m).2 = .err e' → (f m).1 = m) : (f n).1 = n := hn n e he

/-! Non-vacuity: a node with one transaction in its block refuses index 0 and accepts nothing silently. -/
example : ({ lbi := { waiting := 1, ts := 5, hash := "aa" } } : Node).addTxs 5 "aa" 0 none [] none
    = ({ lbi := { waiting := 1, ts := 5, hash := "aa" } }, .err "idx") := by
  simp [addTxs, validateNextTx]

/-! ### `brc20_mine`: an error answer means nothing was mined

`mine` refuses while a block is under construction, then when one of the hashes / numbers of the blocks it is about
to create is in use (`mineClash`), then finalises the blocks one by one (`mineLoop`). The theorem says that the loop
cannot answer an error once the two pre-checks have passed, so that an error answer always leaves the node as it
was. It holds for every node (reachable or not) and every list of recorded events; the only condition is that the
block numbers of the call fit in 32 bytes (they are `u64`), so that the hashes generated for different blocks of the
call differ.

The model's `finaliseOne` used to accept a finalise that recorded additional `block_hash_to_number` rows, and the
statement then needed the side condition `Node.MineHashDiscipline` on the recorded events (an additional row keyed by
the hash the next block is going to get made the second finalise answer `err "exists"` after the first block had been
finalised). The engine's finalise writes exactly one hash-index row, keyed by the hash of the block being finalised
(`set_block_hash`), and the model now refuses anything else (`finOnly`, reject `fin-wrote`): the event list that was
the counterexample is rejected (example below) and the side condition is gone. -/

/-- **A refused `mine` changes nothing**: for every node and every list of recorded events, if `mine` answers an
error then the node is unchanged. -/
theorem C05.mine_error_noop (n : Node) (count ts : Nat) (evs : List Ev) (hfit : n.nextHeight + count < 16 ^ 64)
    (e : String) (he : (n.mine count ts evs).2 = .err e) : (n.mine count ts evs).1 = n :=
  mine_err_noop_fit hfit he

/-- the same with the bound of the implementation: block numbers are `u64` -/
theorem C05.mine_error_noop_u64 (n : Node) (count ts : Nat) (evs : List Ev) (hfit : n.nextHeight + count ≤ 2 ^ 64)
    (e : String) (he : (n.mine count ts evs).2 = .err e) : (n.mine count ts evs).1 = n :=
  mine_err_noop_fit (Nat.lt_of_le_of_lt hfit (by decide)) he

/-- the loop itself: after the pre-checks, `mineLoop` answers `ok`, or stops on a panic / a model reject -/
theorem C05.mineLoop_never_errs_fit (n : Node) (count ts : Nat) (evs : List Ev) (hw : n.lbi.waiting = 0)
    (hc : n.mineClash count = false) (hfit : n.nextHeight + count < 16 ^ 64) (e : String) :
    (mineLoop n ts evs count).2 ≠ .err e :=
  mineLoop_not_err_fit ts evs count (n.nextHeight + count) rfl hw (mineClash_false hc) hfit e

/-- The earlier, conditional form (still true; without the arithmetic condition): under `Node.MineHashDiscipline` -
no recorded `block_hash_to_number` write of a block of the call is keyed by the hash generated for a later block of
the same call - an error answer of `mine` leaves the node unchanged. -/
theorem C05.mine_error_noop_disciplined (n : Node) (count ts : Nat) (evs : List Ev) (hd : MineHashDiscipline n count evs)
    (e : String) (he : (n.mine count ts evs).2 = .err e) : (n.mine count ts evs).1 = n :=
  mine_err_noop hd he

/-- the loop itself: after the pre-checks, `mineLoop` answers `ok`, or stops on a panic / a model reject -/
theorem C05.mineLoop_never_errs (n : Node) (count ts : Nat) (evs : List Ev) (hw : n.lbi.waiting = 0)
    (hc : n.mineClash count = false) (hd : MineHashDiscipline n count evs) (e : String) :
    (mineLoop n ts evs count).2 ≠ .err e :=
  mineLoop_not_err ts evs count (n.nextHeight + count) rfl hw (mineClash_false hc) hd e

/-- mining a single block needs no condition at all -/
theorem C05.mine_one_error_noop (n : Node) (count ts : Nat) (evs : List Ev) (hc : count ≤ 1)
    (e : String) (he : (n.mine count ts evs).2 = .err e) : (n.mine count ts evs).1 = n := by
  apply mine_err_noop _ he
  intro st k v j _ h1 h2 h3
  omega

/-- the form with the recorded hash-index writes keyed by their own block's generated hash (its first hypothesis is
no longer needed: `C05.mine_error_noop`) -/
theorem C05.mine_error_noop_own_hash (n : Node) (count ts : Nat) (evs : List Ev)
    (hown : ∀ st k v, Ev.s TId.hashToNumber.name st k v ∈ evs → k = generatedHash st)
    (hfit : n.nextHeight + count < 16 ^ 64)
    (e : String) (he : (n.mine count ts evs).2 = .err e) : (n.mine count ts evs).1 = n :=
  mine_err_noop (mineHashDiscipline_of_own_hash hown hfit) he

namespace C05.Example
open Node.Example

-- the parked row of `Node.Example` is a 162-character string that `decide` has to walk through
set_option maxRecDepth 8192

/-- two blocks mined on the empty node; the recorded writes of block 0 contain, besides the rows of block 0, a
hash-index row keyed by the hash block 1 is going to get -/
def evBad : List Ev :=
  [ .s "block_number_to_block" 0 "0000000000000000" (some "b0"),
    .s "block_number_to_raw_block" 0 "0000000000000000" (some "r0"),
    .s "block_number_to_hash" 0 "0000000000000000" (some h0),
    .s "block_hash_to_number" 0 h0 (some (hexN 16 0)),
    .s "block_hash_to_number" 0 h1 (some "ff") ]

/-- **The former counterexample is now rejected by the model.** This event list violates `MineHashDiscipline`; the
model used to finalise block 0 and then answer `err "exists"` on block 1 (an error answer and a changed node). The
finalise of block 0 is now refused as not fitting the engine (`fin-wrote`: a hash-index row keyed by a hash other
than the block's), nothing is finalised, and no error is answered. -/
example : (({} : Node).mine 2 300 evBad).2 = .reject "fin-wrote" ∧ ({} : Node).mineClash 2 = false ∧
    (({} : Node).mine 2 300 evBad).1.nextHeight = 0 ∧ ({} : Node).nextHeight = 0 ∧
    ¬ MineHashDiscipline {} 2 evBad := by
  refine ⟨by decide, by decide, by decide, by decide, ?_⟩
  intro h
  exact h 0 h1 (some "ff") 1 (by simp [evBad, TId.name]) (by decide) (by decide) (by decide) rfl

/-- without the extra row the same writes are accepted: block 0 is mined -/
example : (({} : Node).mine 1 300 (evBad.take 4)).2 = .ok ∧ (({} : Node).mine 1 300 (evBad.take 4)).1.nextHeight = 1 := by
  decide

/-- block 3 submitted with an explicit hash: the one `mine` would generate for block 5 -/
def evFin3 : List Ev :=
  [ .s "block_number_to_block" 3 "0000000000000003" (some "b3"),
    .s "block_number_to_raw_block" 3 "0000000000000003" (some "r3"),
    .s "block_number_to_hash" 3 "0000000000000003" (some (generatedHash 5)),
    .s "block_hash_to_number" 3 (generatedHash 5) (some (hexN 16 3)) ]

def opsClash : List Op := ops ++ [.finaliseOne 350 (generatedHash 5) 0 evFin3]

def clash : Node × Ghost := runOps opsClash ({}, Ghost.init)

theorem clash_reach : ReachG clash.1 clash.2 := reachG_runOps opsClash ReachG.init (by decide) (by decide)

/-- the writes a `mine 2` would record on that node (block 4; block 5 is never reached) -/
def evMine4 : List Ev :=
  [ .s "block_number_to_block" 4 "0000000000000004" (some "b4"),
    .s "block_number_to_raw_block" 4 "0000000000000004" (some "r4"),
    .s "block_number_to_hash" 4 "0000000000000004" (some (generatedHash 4)),
    .s "block_hash_to_number" 4 (generatedHash 4) (some (hexN 16 4)) ]

theorem evMine4_own : ∀ st k v, Ev.s TId.hashToNumber.name st k v ∈ evMine4 → k = generatedHash st := by
  intro st k v hm
  simp [evMine4, TId.name] at hm
  rw [hm.1, hm.2.1]

/-- Non-vacuity (the situation of finding F16): a reachable node at height 3 on which the hash generated for block
5 is in use. `mine 2` could finalise block 4 and would then clash on block 5; the pre-check answers `err "exists"`
and, by the theorem, the node is untouched. Mining one block is accepted. -/
example : Reach clash.1 ∧ clash.1.lbi.waiting = 0 ∧ clash.1.latestHeight = 3 ∧
    (clash.1.mine 2 400 evMine4).2 = .err "exists" ∧ (clash.1.mine 2 400 evMine4).1 = clash.1 ∧
    (clash.1.mine 1 400 evMine4).2 = .ok :=
  ⟨clash_reach.reach, by decide, by decide, by decide,
    C05.mine_error_noop clash.1 2 400 evMine4 (by decide) "exists" (by decide), by decide⟩

end C05.Example

/-! ### Whole histories

The statements above are about one call. The property speaks about histories: "every `brc20_*` call that returns an
error leaves the instance exactly as it was, so the history with the rejected calls removed produces identical
results". `DriverE.step` is the model's transition function on protocol lines (the function the compiled driver folds
over its input, and the one whose answers are compared with the real engine line by line); `DriverE.stepCore` is the
same function before the answer is printed (`DriverE.step n l = ((stepCore n l).1, showAnswer (stepCore n l).1
(stepCore n l).2)` by definition), so that "answered with an error" is `.inl (.err e)` and not a property of a text. -/

/-- the number a protocol line carries under the key `k`, as `DriverE.stepCore` reads it -/
def DriverE.numArg (line k : String) : Nat :=
  (field (DriverE.kvs ((((line.splitOn " ## ").headD "").trimAscii.toString.splitOn " ").filter (· ≠ ""))) k).toNat!

/-- **One line, any operation: an error answer leaves the node as it was.** For every node (reachable or not) and
every protocol line (any operation word, any arguments, any recorded events): if the line is answered with an error,
the node after the line is the node before it. The only side condition is the one of `C05.mine_error_noop`, on `mine`
lines alone: the block numbers of the call fit in 32 bytes (they are `u64` in the implementation). `init` lines need
no condition (`C05.initialise_error_noop`). -/
theorem C05.step_error_noop (n : Node) (line : String) (e : String)
    (he : (DriverE.stepCore n line).2 = .inl (.err e))
    (hmine : DriverE.opOf line = "mine" → n.nextHeight + DriverE.numArg line "count" < 16 ^ 64) :
    (DriverE.stepCore n line).1 = n := by
  have key : ∀ r, DriverE.stepCore n line = r → r.2 = .inl (.err e) → r.1 = n := by
    intro r hr
    unfold DriverE.opOf DriverE.numArg at hmine
    unfold DriverE.stepCore at hr
    extract_lets parts head evs ws f g num fin op dataFirst selErr pkErr dec at hr
    split at hr
    · subst hr; intro h; cases h
    · subst hr; intro h
      exact C05.initialise_error_noop n _ _ _ _ e (Sum.inl.inj h)
    · rename_i hop
      subst hr; intro h
      simp only [fin] at h ⊢
      by_cases hc : num "count" = 0 ∧ n.lbi.waiting = 0
      · rw [if_pos hc]
      · rw [if_neg hc] at h ⊢
        exact C05.mine_error_noop n _ _ _ (hmine hop) e (Sum.inl.inj h)
    iterate 4
      · split at hr
        · subst hr; intro _; rfl
        split at hr
        · subst hr; intro _; rfl
        split at hr
        · subst hr; intro _; rfl
        · subst hr; intro h
          exact C05.addTxs_error_noop n _ _ _ _ _ _ e (Sum.inl.inj h)
    · split at hr
      · subst hr; intro _; rfl
      · subst hr; intro h
        exact C05.addRawTx_error_noop n _ _ _ _ _ _ e (Sum.inl.inj h)
    · subst hr; intro h
      exact C05.finalise_error_noop n _ _ _ _ e (Sum.inl.inj h)
    · subst hr; intro h
      exact C05.commit_error_noop n e (Sum.inl.inj h)
    · subst hr; intro h; cases (Sum.inl.inj h)
    · subst hr; intro h; cases (Sum.inl.inj h)
    · subst hr; intro h
      exact C05.reorg_error_noop n _ e (Sum.inl.inj h)
    · subst hr; intro _; rfl
    · subst hr; intro h; cases h
    · split at hr <;> (subst hr; intro h; cases h)
    · subst hr; intro h; cases h
  exact key _ rfl he

/-- the same on the function the driver runs, with the text of the answer: the error, then the digest of the
unchanged node -/
theorem C05.step_error_answer (n : Node) (line : String) (e : String)
    (he : (DriverE.stepCore n line).2 = .inl (.err e))
    (hmine : DriverE.opOf line = "mine" → n.nextHeight + DriverE.numArg line "count" < 16 ^ 64) :
    DriverE.step n line = (n, "err:" ++ e ++ " | " ++ DriverE.digest n) := by
  have hn := C05.step_error_noop n line e he hmine
  show ((DriverE.stepCore n line).1, DriverE.showAnswer (DriverE.stepCore n line).1 (DriverE.stepCore n line).2) = _
  rw [he, hn]
  rfl

/-- the line is answered with an error when the node is `n` -/
def DriverE.rejected (n : Node) (line : String) : Bool :=
  match (DriverE.stepCore n line).2 with
  | .inl (.err _) => true
  | _ => false

theorem DriverE.rejected_iff (n : Node) (line : String) :
    DriverE.rejected n line = true ↔ ∃ e, (DriverE.stepCore n line).2 = .inl (.err e) := by
  unfold DriverE.rejected
  split
  · rename_i e h; exact ⟨fun _ => ⟨e, h⟩, fun _ => rfl⟩
  · rename_i h
    exact ⟨fun x => (by cases x), fun ⟨e, he⟩ => absurd he (h e)⟩

/-- the side condition of `C05.mine_error_noop` along a history run from `n`: every *rejected* `mine` line asks for
block numbers that fit in 32 bytes (a Boolean, so that it can be evaluated on a concrete history) -/
def DriverE.covered : Node → List String → Bool
  | _, [] => true
  | n, l :: ls =>
    (!(DriverE.rejected n l && DriverE.opOf l == "mine") || decide (n.nextHeight + DriverE.numArg l "count" < 16 ^ 64))
      && DriverE.covered (DriverE.step n l).1 ls

/-- the sub-history of the lines that are not rejected when the history is run from `n` (the run goes on from the node
the full history reaches, whatever the rejected line did to it) -/
def DriverE.accepted : Node → List String → List String
  | _, [] => []
  | n, l :: ls =>
    if DriverE.rejected n l then DriverE.accepted (DriverE.step n l).1 ls
    else l :: DriverE.accepted (DriverE.step n l).1 ls

/-- the answers those lines get in the full history, in order -/
def DriverE.acceptedAnswers : Node → List String → List String
  | _, [] => []
  | n, l :: ls =>
    if DriverE.rejected n l then DriverE.acceptedAnswers (DriverE.step n l).1 ls
    else (DriverE.step n l).2 :: DriverE.acceptedAnswers (DriverE.step n l).1 ls

/-- whether each line of the history is rejected, in order -/
def DriverE.rejectedFlags : Node → List String → List Bool
  | _, [] => []
  | n, l :: ls => DriverE.rejected n l :: DriverE.rejectedFlags (DriverE.step n l).1 ls

/-- **Rejected calls can be removed from any history**: for every node and every list of protocol lines, the history
with the rejected lines removed ends in the same node (hence the same digest and the same database contents after a
commit) and gives every remaining line the answer it gets in the full history. Side condition: `DriverE.covered`
(rejected `mine` lines only, see there). -/
theorem C05.history_rejected_removable (lines : List String) :
    ∀ n : Node, DriverE.covered n lines = true →
      (DriverE.run n (DriverE.accepted n lines)).1 = (DriverE.run n lines).1 ∧
      (DriverE.run n (DriverE.accepted n lines)).2 = DriverE.acceptedAnswers n lines := by
  induction lines with
  | nil => intro n _; exact ⟨rfl, rfl⟩
  | cons l ls ih =>
    intro n hc
    simp only [DriverE.covered, Bool.and_eq_true, Bool.or_eq_true, Bool.not_eq_true', Bool.and_eq_false_iff,
      decide_eq_true_eq] at hc
    obtain ⟨hl, hrest⟩ := hc
    by_cases hr : DriverE.rejected n l = true
    · obtain ⟨e, he⟩ := (DriverE.rejected_iff n l).mp hr
      have hn : (DriverE.step n l).1 = n := by
        apply C05.step_error_noop n l e he
        intro hop
        rcases hl with hl | hl
        · rcases hl with hl | hl
          · rw [hr] at hl; cases hl
          · simp [hop] at hl
        · exact hl
      simp only [DriverE.accepted, hr, if_true, DriverE.run, DriverE.acceptedAnswers]
      rw [hn] at hrest ⊢
      exact ih n hrest
    · have hr' : DriverE.rejected n l = false := by simpa using hr
      simp only [DriverE.accepted, hr', Bool.false_eq_true, if_false, DriverE.run, DriverE.acceptedAnswers]
      have := ih (DriverE.step n l).1 hrest
      exact ⟨this.1, by rw [this.2]⟩

/-- the answers of the kept lines are the answers at the same positions of the full history -/
theorem C05.acceptedAnswers_eq_filter (lines : List String) :
    ∀ n : Node, DriverE.acceptedAnswers n lines =
      (((DriverE.rejectedFlags n lines).zip (DriverE.run n lines).2).filter (fun p => !p.1)).map (·.2) := by
  induction lines with
  | nil => intro n; rfl
  | cons l ls ih =>
    intro n
    by_cases hr : DriverE.rejected n l = true
    · simp only [DriverE.acceptedAnswers, hr, if_true, DriverE.run, DriverE.rejectedFlags, List.zip_cons_cons,
        List.filter_cons, Bool.not_true, Bool.false_eq_true, if_false]
      exact ih _
    · have hr' : DriverE.rejected n l = false := by simpa using hr
      simp only [DriverE.acceptedAnswers, hr', Bool.false_eq_true, if_false, DriverE.run, DriverE.rejectedFlags,
        List.zip_cons_cons, List.filter_cons, Bool.not_false, if_true, List.map_cons]
      rw [ih]

/-- and the kept lines are the lines at those positions -/
theorem C05.accepted_eq_filter (lines : List String) :
    ∀ n : Node, DriverE.accepted n lines =
      (((DriverE.rejectedFlags n lines).zip lines).filter (fun p => !p.1)).map (·.2) := by
  induction lines with
  | nil => intro n; rfl
  | cons l ls ih =>
    intro n
    by_cases hr : DriverE.rejected n l = true
    · simp only [DriverE.accepted, hr, if_true, DriverE.rejectedFlags, List.zip_cons_cons,
        List.filter_cons, Bool.not_true, Bool.false_eq_true, if_false]
      exact ih _
    · have hr' : DriverE.rejected n l = false := by simpa using hr
      simp only [DriverE.accepted, hr', Bool.false_eq_true, if_false, DriverE.rejectedFlags,
        List.zip_cons_cons, List.filter_cons, Bool.not_false, if_true, List.map_cons]
      rw [ih]

namespace C05.History

/-- the recorded writes of the finalise of block `k` with hash `h` -/
def blk (k : Nat) (h : String) : String :=
  " ## S block_number_to_block " ++ toString k ++ " " ++ hexN 16 k ++ " b" ++ toString k ++
  " ## S block_number_to_raw_block " ++ toString k ++ " " ++ hexN 16 k ++ " r" ++ toString k ++
  " ## S block_number_to_hash " ++ toString k ++ " " ++ hexN 16 k ++ " " ++ h ++
  " ## S block_hash_to_number " ++ toString k ++ " " ++ h ++ " " ++ hexN 16 k

/-- a history on the empty node with four rejected calls: a finalise with a wrong count, a reorg above the tip, a
`mine 2` whose second block would get a hash in use (finding F16), a `mine 1` whose block would get that hash -/
def hist : List String :=
  [ "fin ts=1 hash=0x00 count=3",
    "mine count=1 ts=300" ++ blk 0 (generatedHash 0),
    "reorg n=7",
    "fin ts=350 hash=0x" ++ generatedHash 2 ++ " count=0" ++ blk 1 (generatedHash 2),
    "mine count=2 ts=400" ++ blk 2 (generatedHash 2),
    "commit",
    "mine count=1 ts=400" ++ blk 2 (generatedHash 2) ]

-- non-vacuity (evaluated, a test: string functions do not reduce in the kernel): the side condition holds on this
-- history, four of its lines are rejected (two of them `mine` lines), three are kept; and the statement of the theorem
-- evaluated on it
#guard DriverE.covered {} hist = true
#guard DriverE.rejectedFlags {} hist = [true, false, true, false, true, false, true]
#guard ((DriverE.run {} hist).2.map (fun a => (a.splitOn " | ").headD "")) =
  ["err:idx", "ok", "err:above", "ok", "err:exists", "ok", "err:exists"]
#guard DriverE.accepted {} hist = [hist[1]!, hist[3]!, hist[5]!]
#guard (DriverE.run {} (DriverE.accepted {} hist)).2 = DriverE.acceptedAnswers {} hist
#guard DriverE.digest (DriverE.run {} (DriverE.accepted {} hist)).1 = DriverE.digest (DriverE.run {} hist).1
#guard (DriverE.run {} hist).1.nextHeight = 2

end C05.History

end Brc20
