/-
C05 - A rejected indexer call changes nothing; the block protocol is enforced.

`Node` functions return the new node together with a response class; `.err k` is an error response.
(`.reject w` is not a response: it says the recorded events do not fit the model - a broken correspondence.)
-/
import Brc20.Model.Node
import Brc20.Proofs.Node
import Brc20.Proofs.ReachProps

namespace Brc20
open Node

/-- **Rejected = untouched**, for every entry point whose work is a single step. -/
theorem C05.addTxs_error_noop (n : Node) (ts : Nat) (h : String) (idx : Nat) (txid : Option String) (evs : List Ev)
    (k : Option Nat) (e : String) (he : (n.addTxs ts h idx txid evs k).2 = .err e) : (n.addTxs ts h idx txid evs k).1 = n := by
  exact (addTxs_err he).2

theorem C05.addRawTx_error_noop (n : Node) (ts : Nat) (h : String) (idx : Nat) (txid : String) (d : RawDecode)
    (evs : List Ev) (e : String) (he : (n.addRawTx ts h idx txid d evs).2 = .err e) : (n.addRawTx ts h idx txid d evs).1 = n := by
  cases d with
  | fail => rfl
  | wrongChain =>
    simp only [addRawTx] at he ⊢
    split <;> rfl
  | ok sender nonce =>
    simp only [addRawTx] at he ⊢
    by_cases h1 : nonce ≠ n.accountNonce sender
    · rw [if_pos h1] at he ⊢
      by_cases h2 : nonce > n.accountNonce sender ∧ nonce < n.accountNonce sender + FUTURE_NONCES
      · rw [if_pos h2] at he ⊢
        split
        · rfl
        · rename_i h3
          rw [if_neg h3] at he
          split
          · rfl
          · rename_i h4
            rw [if_neg h4] at he
            split
            · rfl
            · rename_i h5
              rw [if_neg h5] at he
              split at he <;> cases he
      · rw [if_neg h2] at he ⊢
        split <;> rfl
    · rw [if_neg h1] at he ⊢
      rcases drainCheck_cases n sender (n.accountNonce sender + 1)
        (drainPlan n sender n.nextHeight FUTURE_NONCES (n.accountNonce sender + 1)).2
        (n.addTxs ts h idx (some txid) evs
          (some (1 + (drainPlan n sender n.nextHeight FUTURE_NONCES (n.accountNonce sender + 1)).1))) with e' | ⟨_, e'⟩
      · rw [e'] at he ⊢
        exact (addTxs_err he).2
      · rw [e']

theorem C05.finalise_error_noop (n : Node) (ts : Nat) (h : String) (count : Nat) (evs : List Ev) (e : String)
    (he : (n.finaliseOne ts h count evs).2 = .err e) : (n.finaliseOne ts h count evs).1 = n := by
  exact (finaliseOne_err he).2

theorem C05.commit_error_noop (n : Node) (e : String) (he : n.commit.2 = .err e) : n.commit.1 = n := by
  unfold commit at he ⊢
  split
  · rfl
  · rename_i hw; rw [if_neg hw] at he; cases he

theorem C05.reorg_error_noop (n : Node) (target : Nat) (e : String) (he : (n.reorg target).2 = .err e) :
    (n.reorg target).1 = n := by
  unfold reorg at he ⊢
  simp only [] at he ⊢
  by_cases h1 : n.lbi.waiting ≠ 0
  · rw [if_pos h1]
  rw [if_neg h1] at he ⊢
  by_cases h2 : target > n.latestHeight
  · rw [if_pos h2]
  rw [if_neg h2] at he ⊢
  by_cases h3 : n.latestHeight - target > W
  · rw [if_pos h3]
  rw [if_neg h3] at he ⊢
  by_cases h4 : n.maxBlock.getD 0 > W + target
  · rw [if_pos h4]
  rw [if_neg h4] at he ⊢
  split at he <;> cases he

/-- `brc20_initialise`: every error is raised before anything is executed (this needed the `fix:` that checks
the genesis height first) - unless the deployment or the finalise itself is refused by the block protocol. -/
theorem C05.initialise_early_errors_noop (n : Node) (h : String) (ts height : Nat) (evs : List Ev)
    (he : (n.initialise h ts height evs).2 = .err "genesis" ∨ (n.initialise h ts height evs).2 = .err "height") :
    (n.initialise h ts height evs).1 = n := by
  unfold initialise at he ⊢
  simp only [] at he ⊢
  split
  · split <;> rfl
  · rename_i hb
    rw [hb] at he
    simp only [] at he
    by_cases hh : height ≠ n.nextHeight
    · rw [if_pos hh]
    · rw [if_neg hh] at he ⊢
      split
      · rename_i n1 ha
        rw [ha] at he
        simp only [] at he
        exfalso
        rcases he with he | he
        · rcases validateNextTx_some_mem (finaliseOne_err he).1 with h | h | h | h <;> simp at h
        · rcases validateNextTx_some_mem (finaliseOne_err he).1 with h | h | h | h <;> simp at h
      · rename_i n1 c hc ha
        rw [ha] at he
        simp only [] at he
        have hc' : ∃ e, c = .err e := by
          rcases he with he | he <;> exact ⟨_, he⟩
        obtain ⟨e, rfl⟩ := hc'
        have := (addTxs_err (by rw [ha])).2
        rw [ha] at this
        exact this

/-- `brc20_mine` while a block is under construction is refused without effect. -/
theorem C05.mine_waiting_noop (n : Node) (count ts : Nat) (evs : List Ev) (hw : n.lbi.waiting ≠ 0) :
    n.mine count ts evs = (n, .err "waiting") := by
  unfold mine
  rw [if_pos hw]

/-- `brc20_mine` when one of the hashes it would generate is already in use is refused without effect, before the first
block is finalised (the Rust used to finalise the blocks before the clash and then answer an error; fixed, F16). -/
theorem C05.mine_clash_noop (n : Node) (count ts : Nat) (evs : List Ev) (hw : n.lbi.waiting = 0)
    (hc : n.mineClash count = true) : n.mine count ts evs = (n, .err "exists") := by
  unfold mine
  rw [if_neg (by simpa using hw), if_pos hc]

/-! ### The block protocol -/

/-- A transaction index that is not the number of transactions already in the block is refused. -/
theorem C05.wrong_index_refused (n : Node) (ts : Nat) (h : String) (idx : Nat) (txid : Option String) (evs : List Ev)
    (k : Option Nat) (hi : n.lbi.waiting ≠ idx) : n.addTxs ts h idx txid evs k = (n, .err "idx") := by
  simp [addTxs, validateNextTx, hi]

/-- Mid-block, a timestamp differing from the block under construction is refused. -/
theorem C05.wrong_timestamp_refused (n : Node) (ts : Nat) (h : String) (txid : Option String) (evs : List Ev)
    (k : Option Nat) (hw : n.lbi.waiting ≠ 0) (ht : n.lbi.ts ≠ ts) :
    n.addTxs ts h n.lbi.waiting txid evs k = (n, .err "ts") := by
  simp [addTxs, validateNextTx, hw, ht]

/-- Mid-block, a block hash differing from the block under construction is refused. -/
theorem C05.wrong_hash_refused (n : Node) (h : String) (txid : Option String) (evs : List Ev) (k : Option Nat)
    (hw : n.lbi.waiting ≠ 0) (hh : n.lbi.hash ≠ normHash h n.nextHeight) :
    n.addTxs n.lbi.ts h n.lbi.waiting txid evs k = (n, .err "hash") := by
  simp [addTxs, validateNextTx, hw, hh]

/-- A finalise with the wrong transaction count is refused. -/
theorem C05.wrong_count_refused (n : Node) (ts : Nat) (h : String) (count : Nat) (evs : List Ev)
    (hc : n.lbi.waiting ≠ count) : n.finaliseOne ts h count evs = (n, .err "idx") := by
  simp [finaliseOne, validateNextTx, hc]

/-- A block hash that already exists, or a height that already has a hash, is refused (first transaction of a
block and finalise alike). -/
theorem C05.existing_block_refused (n : Node) (ts : Nat) (h : String) (txid : Option String) (evs : List Ev) (k : Option Nat)
    (hw : n.lbi.waiting = 0) (hx : n.blockExists (normHash h n.nextHeight) n.nextHeight = true) :
    n.addTxs ts h 0 txid evs k = (n, .err "exists") ∧ n.finaliseOne ts h 0 evs = (n, .err "exists") := by
  simp [addTxs, finaliseOne, validateNextTx, hw, hx]

/-- Commit and reorg while a block is under construction are refused. -/
theorem C05.commit_reorg_mid_block_refused (n : Node) (target : Nat) (hw : n.lbi.waiting ≠ 0) :
    n.commit = (n, .err "waiting") ∧ n.reorg target = (n, .err "waiting") := by
  simp [commit, reorg, hw]

/-- Consequently a history with its rejected calls removed reaches the same node: a rejected step is the identity. -/
theorem C05.rejected_removable (f : Node → Node × Class) (n : Node) (e : String) (he : (f n).2 = .err e)
    (hn : ∀ m e', (f m).2 = .err e' → (f m).1 = m) : (f n).1 = n := hn n e he

/-! Non-vacuity: a node with one transaction in its block refuses index 0 and accepts nothing silently. -/
example : ({ lbi := { waiting := 1, ts := 5, hash := "aa" } } : Node).addTxs 5 "aa" 0 none [] none
    = ({ lbi := { waiting := 1, ts := 5, hash := "aa" } }, .err "idx") := by
  simp [addTxs, validateNextTx]

/-! ### `brc20_mine`: an error answer means nothing was mined

`mine` refuses while a block is under construction, then when one of the hashes / numbers of the blocks it is about
to create is in use (`mineClash`), then finalises the blocks one by one (`mineLoop`). The theorem says that the loop
cannot answer an error once the two pre-checks have passed, so that an error answer always leaves the node as it
was. It holds for every node (reachable or not) and every list of recorded events; the only condition is that the
block numbers of the call fit in 32 bytes (they are `u64`), so that the hashes generated for different blocks of the
call differ.

The model's `finaliseOne` used to accept a finalise that recorded additional `block_hash_to_number` rows, and the
statement then needed the side condition `Node.MineHashDiscipline` on the recorded events (an additional row keyed by
the hash the next block is going to get made the second finalise answer `err "exists"` after the first block had been
finalised). The engine's finalise writes exactly one hash-index row, keyed by the hash of the block being finalised
(`set_block_hash`), and the model now refuses anything else (`finOnly`, reject `fin-wrote`): the event list that was
the counterexample is rejected (example below) and the side condition is gone. -/

/-- **A refused `mine` changes nothing**: for every node and every list of recorded events, if `mine` answers an
error then the node is unchanged. -/
theorem C05.mine_error_noop (n : Node) (count ts : Nat) (evs : List Ev) (hfit : n.nextHeight + count < 16 ^ 64)
    (e : String) (he : (n.mine count ts evs).2 = .err e) : (n.mine count ts evs).1 = n :=
  mine_err_noop_fit hfit he

/-- the same with the bound of the implementation: block numbers are `u64` -/
theorem C05.mine_error_noop_u64 (n : Node) (count ts : Nat) (evs : List Ev) (hfit : n.nextHeight + count ≤ 2 ^ 64)
    (e : String) (he : (n.mine count ts evs).2 = .err e) : (n.mine count ts evs).1 = n :=
  mine_err_noop_fit (Nat.lt_of_le_of_lt hfit (by decide)) he

/-- the loop itself: after the pre-checks, `mineLoop` answers `ok`, or stops on a panic / a model reject -/
theorem C05.mineLoop_never_errs_fit (n : Node) (count ts : Nat) (evs : List Ev) (hw : n.lbi.waiting = 0)
    (hc : n.mineClash count = false) (hfit : n.nextHeight + count < 16 ^ 64) (e : String) :
    (mineLoop n ts evs count).2 ≠ .err e :=
  mineLoop_not_err_fit ts evs count (n.nextHeight + count) rfl hw (mineClash_false hc) hfit e

/-- The earlier, conditional form (still true; without the arithmetic condition): under `Node.MineHashDiscipline` -
no recorded `block_hash_to_number` write of a block of the call is keyed by the hash generated for a later block of
the same call - an error answer of `mine` leaves the node unchanged. -/
theorem C05.mine_error_noop_disciplined (n : Node) (count ts : Nat) (evs : List Ev) (hd : MineHashDiscipline n count evs)
    (e : String) (he : (n.mine count ts evs).2 = .err e) : (n.mine count ts evs).1 = n :=
  mine_err_noop hd he

/-- the loop itself: after the pre-checks, `mineLoop` answers `ok`, or stops on a panic / a model reject -/
theorem C05.mineLoop_never_errs (n : Node) (count ts : Nat) (evs : List Ev) (hw : n.lbi.waiting = 0)
    (hc : n.mineClash count = false) (hd : MineHashDiscipline n count evs) (e : String) :
    (mineLoop n ts evs count).2 ≠ .err e :=
  mineLoop_not_err ts evs count (n.nextHeight + count) rfl hw (mineClash_false hc) hd e

/-- mining a single block needs no condition at all -/
theorem C05.mine_one_error_noop (n : Node) (count ts : Nat) (evs : List Ev) (hc : count ≤ 1)
    (e : String) (he : (n.mine count ts evs).2 = .err e) : (n.mine count ts evs).1 = n := by
  apply mine_err_noop _ he
  intro st k v j _ h1 h2 h3
  omega

/-- the form with the recorded hash-index writes keyed by their own block's generated hash (its first hypothesis is
no longer needed: `C05.mine_error_noop`) -/
theorem C05.mine_error_noop_own_hash (n : Node) (count ts : Nat) (evs : List Ev)
    (hown : ∀ st k v, Ev.s TId.hashToNumber.name st k v ∈ evs → k = generatedHash st)
    (hfit : n.nextHeight + count < 16 ^ 64)
    (e : String) (he : (n.mine count ts evs).2 = .err e) : (n.mine count ts evs).1 = n :=
  mine_err_noop (mineHashDiscipline_of_own_hash hown hfit) he

namespace C05.Example
open Node.Example

-- the parked row of `Node.Example` is a 162-character string that `decide` has to walk through
set_option maxRecDepth 8192

/-- two blocks mined on the empty node; the recorded writes of block 0 contain, besides the rows of block 0, a
hash-index row keyed by the hash block 1 is going to get -/
def evBad : List Ev :=
  [ .s "block_number_to_block" 0 "0000000000000000" (some "b0"),
    .s "block_number_to_raw_block" 0 "0000000000000000" (some "r0"),
    .s "block_number_to_hash" 0 "0000000000000000" (some h0),
    .s "block_hash_to_number" 0 h0 (some (hexN 16 0)),
    .s "block_hash_to_number" 0 h1 (some "ff") ]

/-- **The former counterexample is now rejected by the model.** This event list violates `MineHashDiscipline`; the
model used to finalise block 0 and then answer `err "exists"` on block 1 (an error answer and a changed node). The
finalise of block 0 is now refused as not fitting the engine (`fin-wrote`: a hash-index row keyed by a hash other
than the block's), nothing is finalised, and no error is answered. -/
example : (({} : Node).mine 2 300 evBad).2 = .reject "fin-wrote" ∧ ({} : Node).mineClash 2 = false ∧
    (({} : Node).mine 2 300 evBad).1.nextHeight = 0 ∧ ({} : Node).nextHeight = 0 ∧
    ¬ MineHashDiscipline {} 2 evBad := by
  refine ⟨by decide, by decide, by decide, by decide, ?_⟩
  intro h
  exact h 0 h1 (some "ff") 1 (by simp [evBad, TId.name]) (by decide) (by decide) (by decide) rfl

/-- without the extra row the same writes are accepted: block 0 is mined -/
example : (({} : Node).mine 1 300 (evBad.take 4)).2 = .ok ∧ (({} : Node).mine 1 300 (evBad.take 4)).1.nextHeight = 1 := by
  decide

/-- block 3 submitted with an explicit hash: the one `mine` would generate for block 5 -/
def evFin3 : List Ev :=
  [ .s "block_number_to_block" 3 "0000000000000003" (some "b3"),
    .s "block_number_to_raw_block" 3 "0000000000000003" (some "r3"),
    .s "block_number_to_hash" 3 "0000000000000003" (some (generatedHash 5)),
    .s "block_hash_to_number" 3 (generatedHash 5) (some (hexN 16 3)) ]

def opsClash : List Op := ops ++ [.finaliseOne 350 (generatedHash 5) 0 evFin3]

def clash : Node × Ghost := runOps opsClash ({}, Ghost.init)

theorem clash_reach : ReachG clash.1 clash.2 := reachG_runOps opsClash ReachG.init (by decide) (by decide)

/-- the writes a `mine 2` would record on that node (block 4; block 5 is never reached) -/
def evMine4 : List Ev :=
  [ .s "block_number_to_block" 4 "0000000000000004" (some "b4"),
    .s "block_number_to_raw_block" 4 "0000000000000004" (some "r4"),
    .s "block_number_to_hash" 4 "0000000000000004" (some (generatedHash 4)),
    .s "block_hash_to_number" 4 (generatedHash 4) (some (hexN 16 4)) ]

theorem evMine4_own : ∀ st k v, Ev.s TId.hashToNumber.name st k v ∈ evMine4 → k = generatedHash st := by
  intro st k v hm
  simp [evMine4, TId.name] at hm
  rw [hm.1, hm.2.1]

/-- Non-vacuity (the situation of finding F16): a reachable node at height 3 on which the hash generated for block
5 is in use. `mine 2` could finalise block 4 and would then clash on block 5; the pre-check answers `err "exists"`
and, by the theorem, the node is untouched. Mining one block is accepted. -/
example : Reach clash.1 ∧ clash.1.lbi.waiting = 0 ∧ clash.1.latestHeight = 3 ∧
    (clash.1.mine 2 400 evMine4).2 = .err "exists" ∧ (clash.1.mine 2 400 evMine4).1 = clash.1 ∧
    (clash.1.mine 1 400 evMine4).2 = .ok :=
  ⟨clash_reach.reach, by decide, by decide, by decide,
    C05.mine_error_noop clash.1 2 400 evMine4 (by decide) "exists" (by decide), by decide⟩

end C05.Example

end Brc20
