/-
C05 - A rejected indexer call changes nothing; the block protocol is enforced.

`Node` functions return the new node together with a response class; `.err k` is an error response.
(`.reject w` is not a response: it says the recorded events do not fit the model - a broken correspondence.)
-/
import Brc20.Model.Node
import Brc20.Proofs.Node

namespace Brc20
open Node

/-- **Rejected = untouched**, for every entry point whose work is a single step. -/
theorem C05.addTxs_error_noop (n : Node) (ts : Nat) (h : String) (idx : Nat) (txid : Option String) (evs : List Ev)
    (k : Option Nat) (e : String) (he : (n.addTxs ts h idx txid evs k).2 = .err e) : (n.addTxs ts h idx txid evs k).1 = n := by
  exact (addTxs_err he).2

theorem C05.addRawTx_error_noop (n : Node) (ts : Nat) (h : String) (idx : Nat) (txid : String) (d : RawDecode)
    (evs : List Ev) (e : String) (he : (n.addRawTx ts h idx txid d evs).2 = .err e) : (n.addRawTx ts h idx txid d evs).1 = n := by
  cases d with
  | fail => rfl
  | wrongChain =>
    simp only [addRawTx] at he ⊢
    split <;> rfl
  | ok sender nonce =>
    simp only [addRawTx] at he ⊢
    by_cases h1 : nonce ≠ n.accountNonce sender
    · rw [if_pos h1] at he ⊢
      by_cases h2 : nonce > n.accountNonce sender ∧ nonce < n.accountNonce sender + FUTURE_NONCES
      · rw [if_pos h2] at he ⊢
        split
        · rfl
        · rename_i h3
          rw [if_neg h3] at he
          split
          · rfl
          · rename_i h4
            rw [if_neg h4] at he
            split at he <;> cases he
      · rw [if_neg h2] at he ⊢
        split <;> rfl
    · rw [if_neg h1] at he ⊢
      exact (addTxs_err he).2

theorem C05.finalise_error_noop (n : Node) (ts : Nat) (h : String) (count : Nat) (evs : List Ev) (e : String)
    (he : (n.finaliseOne ts h count evs).2 = .err e) : (n.finaliseOne ts h count evs).1 = n := by
  exact (finaliseOne_err he).2

theorem C05.commit_error_noop (n : Node) (e : String) (he : n.commit.2 = .err e) : n.commit.1 = n := by
  unfold commit at he ⊢
  split
  · rfl
  · rename_i hw; rw [if_neg hw] at he; cases he

theorem C05.reorg_error_noop (n : Node) (target : Nat) (e : String) (he : (n.reorg target).2 = .err e) :
    (n.reorg target).1 = n := by
  unfold reorg at he ⊢
  simp only [] at he ⊢
  by_cases h1 : n.lbi.waiting ≠ 0
  · rw [if_pos h1]
  rw [if_neg h1] at he ⊢
  by_cases h2 : target > n.latestHeight
  · rw [if_pos h2]
  rw [if_neg h2] at he ⊢
  by_cases h3 : n.latestHeight - target > W
  · rw [if_pos h3]
  rw [if_neg h3] at he ⊢
  by_cases h4 : n.maxBlock.getD 0 > W + target
  · rw [if_pos h4]
  rw [if_neg h4] at he ⊢
  split at he <;> cases he

/-- `brc20_initialise`: every error is raised before anything is executed (this needed the `fix:` that checks
the genesis height first) - unless the deployment or the finalise itself is refused by the block protocol. -/
theorem C05.initialise_early_errors_noop (n : Node) (h : String) (ts height : Nat) (evs : List Ev)
    (he : (n.initialise h ts height evs).2 = .err "genesis" ∨ (n.initialise h ts height evs).2 = .err "height") :
    (n.initialise h ts height evs).1 = n := by
  unfold initialise at he ⊢
  simp only [] at he ⊢
  split
  · split <;> rfl
  · rename_i hb
    rw [hb] at he
    simp only [] at he
    by_cases hh : height ≠ n.nextHeight
    · rw [if_pos hh]
    · rw [if_neg hh] at he ⊢
      split
      · rename_i n1 ha
        rw [ha] at he
        simp only [] at he
        exfalso
        rcases he with he | he
        · rcases validateNextTx_some_mem (finaliseOne_err he).1 with h | h | h | h <;> simp at h
        · rcases validateNextTx_some_mem (finaliseOne_err he).1 with h | h | h | h <;> simp at h
      · rename_i n1 c hc ha
        rw [ha] at he
        simp only [] at he
        have hc' : ∃ e, c = .err e := by
          rcases he with he | he <;> exact ⟨_, he⟩
        obtain ⟨e, rfl⟩ := hc'
        have := (addTxs_err (by rw [ha])).2
        rw [ha] at this
        exact this

/-- `brc20_mine` while a block is under construction is refused without effect. -/
theorem C05.mine_waiting_noop (n : Node) (count ts : Nat) (evs : List Ev) (hw : n.lbi.waiting ≠ 0) :
    n.mine count ts evs = (n, .err "waiting") := by
  unfold mine
  rw [if_pos hw]

/-- `brc20_mine` when one of the hashes it would generate is already in use is refused without effect, before the first
block is finalised (the Rust used to finalise the blocks before the clash and then answer an error; fixed, F16). -/
theorem C05.mine_clash_noop (n : Node) (count ts : Nat) (evs : List Ev) (hw : n.lbi.waiting = 0)
    (hc : n.mineClash count = true) : n.mine count ts evs = (n, .err "exists") := by
  unfold mine
  rw [if_neg (by simpa using hw), if_pos hc]

/-! ### The block protocol -/

/-- A transaction index that is not the number of transactions already in the block is refused. -/
theorem C05.wrong_index_refused (n : Node) (ts : Nat) (h : String) (idx : Nat) (txid : Option String) (evs : List Ev)
    (k : Option Nat) (hi : n.lbi.waiting ≠ idx) : n.addTxs ts h idx txid evs k = (n, .err "idx") := by
  simp [addTxs, validateNextTx, hi]

/-- Mid-block, a timestamp differing from the block under construction is refused. -/
theorem C05.wrong_timestamp_refused (n : Node) (ts : Nat) (h : String) (txid : Option String) (evs : List Ev)
    (k : Option Nat) (hw : n.lbi.waiting ≠ 0) (ht : n.lbi.ts ≠ ts) :
    n.addTxs ts h n.lbi.waiting txid evs k = (n, .err "ts") := by
  simp [addTxs, validateNextTx, hw, ht]

/-- Mid-block, a block hash differing from the block under construction is refused. -/
theorem C05.wrong_hash_refused (n : Node) (h : String) (txid : Option String) (evs : List Ev) (k : Option Nat)
    (hw : n.lbi.waiting ≠ 0) (hh : n.lbi.hash ≠ normHash h n.nextHeight) :
    n.addTxs n.lbi.ts h n.lbi.waiting txid evs k = (n, .err "hash") := by
  simp [addTxs, validateNextTx, hw, hh]

/-- A finalise with the wrong transaction count is refused. -/
theorem C05.wrong_count_refused (n : Node) (ts : Nat) (h : String) (count : Nat) (evs : List Ev)
    (hc : n.lbi.waiting ≠ count) : n.finaliseOne ts h count evs = (n, .err "idx") := by
  simp [finaliseOne, validateNextTx, hc]

/-- A block hash that already exists, or a height that already has a hash, is refused (first transaction of a
block and finalise alike). -/
theorem C05.existing_block_refused (n : Node) (ts : Nat) (h : String) (txid : Option String) (evs : List Ev) (k : Option Nat)
    (hw : n.lbi.waiting = 0) (hx : n.blockExists (normHash h n.nextHeight) n.nextHeight = true) :
    n.addTxs ts h 0 txid evs k = (n, .err "exists") ∧ n.finaliseOne ts h 0 evs = (n, .err "exists") := by
  simp [addTxs, finaliseOne, validateNextTx, hw, hx]

/-- Commit and reorg while a block is under construction are refused. -/
theorem C05.commit_reorg_mid_block_refused (n : Node) (target : Nat) (hw : n.lbi.waiting ≠ 0) :
    n.commit = (n, .err "waiting") ∧ n.reorg target = (n, .err "waiting") := by
  simp [commit, reorg, hw]

/-- Consequently a history with its rejected calls removed reaches the same node: a rejected step is the identity. -/
theorem C05.rejected_removable (f : Node → Node × Class) (n : Node) (e : String) (he : (f n).2 = .err e)
    (hn : ∀ m e', (f m).2 = .err e' → (f m).1 = m) : (f n).1 = n := hn n e he

/-! Non-vacuity: a node with one transaction in its block refuses index 0 and accepts nothing silently. -/
example : ({ lbi := { waiting := 1, ts := 5, hash := "aa" } } : Node).addTxs 5 "aa" 0 none [] none
    = ({ lbi := { waiting := 1, ts := 5, hash := "aa" } }, .err "idx") := by
  simp [addTxs, validateNextTx]

end Brc20
