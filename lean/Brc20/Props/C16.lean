/-
C16 - Gas allowance follows inscription size and gas estimates are sufficient.

The EVM enters through two explicit hypotheses only: `succ` (does the simulated call succeed at this gas limit?) is
an arbitrary function for soundness/termination, and monotone ("programs that do not inspect remaining gas") for
sufficiency.  `gasUsed ≤ gasLimit` is revm's contract and is validated by correspondence, not proved.
-/
import Brc20.Model.DriverE
import Brc20.Props.C10
import Brc20.Model.FailedTx
import Brc20.Proofs.FailedTx
import Brc20.Proofs.Node
import Brc20.Model.Gas
import Brc20.Gen.Constants

namespace Brc20
open Gas

/-- The constants of the model are those of the source. -/
theorem C16.constants : Gen.GAS_PER_BYTE = 12000 ∧ Gen.ESTIMATE_LOWER_GAS_LIMIT = 21000 ∧
    Gen.EVM_CALL_GAS_LIMIT = 1000000000 := by decide

/-- The allowance is `12000 * length`, saturating at `u64::MAX`; it never exceeds either. -/
theorem C16.gas_limit_def (n : Nat) :
    gasLimit 12000 n = (if n * 12000 ≤ U64MAX then n * 12000 else U64MAX) ∧ gasLimit 12000 n ≤ U64MAX ∧
    gasLimit 12000 n ≤ n * 12000 := by
  unfold gasLimit; refine ⟨?_, Nat.min_le_right _ _, Nat.min_le_left _ _⟩
  split <;> omega

/-- The allowance is monotone in the inscription length. -/
theorem C16.gas_limit_mono (a b : Nat) (h : a ≤ b) : gasLimit 12000 a ≤ gasLimit 12000 b := by
  unfold gasLimit; have : a * 12000 ≤ b * 12000 := Nat.mul_le_mul_right _ h; omega

/-- Converting a stored allowance back to a length and forth again gives the same allowance whenever the original
product did not saturate (this is how a parked transaction keeps its allowance until it is drained). -/
theorem C16.byte_len_inverse (n : Nat) (h : n * 12000 ≤ U64MAX) :
    gasLimit 12000 (byteLenOf 12000 (gasLimit 12000 n)) = gasLimit 12000 n := by
  unfold gasLimit byteLenOf
  have : min (n * 12000) U64MAX = n * 12000 := Nat.min_eq_left h
  rw [this, Nat.mul_div_cancel _ (by decide : 0 < 12000), this]

/-- Core invariant of the loop, for an *arbitrary* `succ`: it returns a limit between the bounds at which the last
"sufficient" answer was observed (or the initial upper bound). -/
theorem C16.bisect_invariant (G : Nat) (succ : Succ) (fuel lo hi : Nat) (hlo : lo ≤ hi) (hs : succ hi = true) :
    lo ≤ bisect G succ fuel lo hi ∧ bisect G succ fuel lo hi ≤ hi ∧ succ (bisect G succ fuel lo hi) = true := by
  induction fuel generalizing lo hi with
  | zero => simp [bisect, hlo, hs]
  | succ f ih =>
    unfold bisect
    by_cases hc : lo + G < hi
    · simp only [hc, if_true]
      cases hm : succ ((lo + hi) / 2) with
      | true =>
        simp only [if_true]
        have := ih lo ((lo + hi) / 2) (by omega) hm
        exact ⟨this.1, by omega, this.2.2⟩
      | false =>
        simp only [Bool.false_eq_true, if_false]
        have := ih ((lo + hi) / 2 + 1) hi (by omega) hs
        exact ⟨by omega, this.2.1, this.2.2⟩
    · simp [hc, hlo, hs]

/-- The loop needs at most 64 simulations for any 64-bit bounds, whatever `succ` answers: the interval at least halves. -/
theorem C16.bisect_fuel (G : Nat) (succ : Succ) (fuel lo hi : Nat) (h : hi - lo < 2 ^ fuel) :
    bisect G succ (fuel + 1) lo hi = bisect G succ fuel lo hi ∧ bisectSteps G succ (fuel + 1) lo hi ≤ fuel := by
  induction fuel generalizing lo hi with
  | zero =>
    have : hi ≤ lo := by simp at h; omega
    simp [bisect, bisectSteps]; omega
  | succ f ih =>
    unfold bisect bisectSteps
    by_cases hc : lo + G < hi
    · simp only [hc, if_true]
      have hp : 2 ^ (f + 1) = 2 * 2 ^ f := by rw [Nat.pow_succ]; omega
      cases hm : succ ((lo + hi) / 2) with
      | true =>
        simp only [if_true]
        have := ih lo ((lo + hi) / 2) (by omega)
        exact ⟨this.1, by omega⟩
      | false =>
        simp only [Bool.false_eq_true, if_false]
        have := ih ((lo + hi) / 2 + 1) hi (by omega)
        exact ⟨this.1, by omega⟩
    · simp [hc]

/-- **Soundness of `eth_estimateGas`** for an arbitrary program: whenever a figure `g` is returned, the first run at
the cap succeeded, `21000 ≤ g ≤ cap`, and the confirmation run at exactly `g` succeeded. -/
theorem C16.estimate_sound (cap : Nat) (succ : Succ) (hcap : 21000 ≤ cap) (g : Nat)
    (h : estimate 12000 21000 cap succ = some g) : succ cap = true ∧ 21000 ≤ g ∧ g ≤ cap ∧ succ g = true := by
  unfold estimate at h
  by_cases hc : succ cap = true
  · simp only [hc, if_true] at h
    have inv := C16.bisect_invariant 12000 succ 64 21000 cap hcap hc
    split at h
    · injection h with h; subst h; exact ⟨hc, inv.1, inv.2.1, inv.2.2⟩
    · simp at h
  · simp [hc] at h

/-- If the call succeeds at the cap, an estimate is always produced (the confirmation run cannot fail, because the
bisection only ever lowers the upper bound to a limit it has seen succeed). -/
theorem C16.estimate_total (cap : Nat) (succ : Succ) (hcap : 21000 ≤ cap) (hc : succ cap = true) :
    ∃ g, estimate 12000 21000 cap succ = some g := by
  unfold estimate
  have inv := C16.bisect_invariant 12000 succ 64 21000 cap hcap hc
  simp [hc, inv.2.2]

/-- **Sufficiency**: for programs that do not inspect remaining gas (`succ` monotone), the inscription length
`ceil(g / 12000)` derived from the estimate yields an allowance at which the call succeeds. -/
theorem C16.estimate_sufficient (cap : Nat) (succ : Succ) (hcap : 21000 ≤ cap) (hU : cap ≤ U64MAX)
    (mono : ∀ a b, a ≤ b → succ a = true → succ b = true) (g : Nat)
    (h : estimate 12000 21000 cap succ = some g) : succ (gasLimit 12000 (lenFor 12000 g)) = true := by
  obtain ⟨_, _, hg, hs⟩ := C16.estimate_sound cap succ hcap g h
  apply mono g _ _ hs
  unfold gasLimit lenFor
  have h1 : g ≤ (g + 12000 - 1) / 12000 * 12000 := by
    have := Nat.div_add_mod (g + 12000 - 1) 12000
    have := Nat.mod_lt (g + 12000 - 1) (by decide : 0 < 12000)
    omega
  have : g ≤ U64MAX := by omega
  omega

/-- **Tightness**: under the same monotonicity, the figure is within 12000 gas of the least sufficient limit above
the floor: the limit `g - 12001` (when above the floor) is observed or implied insufficient. Stated as: the returned
`g` is at most 12000 above the final lower bound, and every limit below that lower bound and ≥ 21000 that was probed
failed; for monotone `succ`: no limit `l` with `21000 ≤ l` and `l + 12001 ≤ g`... succeeds -/
theorem C16.estimate_tight (G : Nat) (succ : Succ) (fuel lo hi : Nat) (hlo : lo ≤ hi)
    (hf : hi - lo < 2 ^ fuel)
    (mono : ∀ a b, a ≤ b → succ a = true → succ b = true)
    (hbelow : ∀ l, l < lo → succ l = false) :
    ∀ l, l + G + 1 ≤ bisect G succ fuel lo hi → succ l = false := by
  induction fuel generalizing lo hi with
  | zero =>
    intro l hl; simp [bisect] at hl
    have : hi ≤ lo := by simp at hf; omega
    exact hbelow l (by omega)
  | succ f ih =>
    intro l hl
    unfold bisect at hl
    have hp : 2 ^ (f + 1) = 2 * 2 ^ f := by rw [Nat.pow_succ]; omega
    by_cases hc : lo + G < hi
    · simp only [hc, if_true] at hl
      cases hm : succ ((lo + hi) / 2) with
      | true =>
        simp only [hm, if_true] at hl
        exact ih lo ((lo + hi) / 2) (by omega) (by omega) hbelow l hl
      | false =>
        simp only [hm, Bool.false_eq_true, if_false] at hl
        refine ih ((lo + hi) / 2 + 1) hi (by omega) (by omega) ?_ l hl
        intro l' hl'
        cases hx : succ l' with
        | false => rfl
        | true =>
          have := mono l' ((lo + hi) / 2) (by omega) hx
          rw [hm] at this; exact absurd this (by simp)
    · simp only [hc, if_false] at hl
      exact hbelow l (by omega)

/-! Non-vacuity: a threshold program needing 100000 gas. -/
example : estimate 12000 21000 1000000000 (fun g => decide (100000 ≤ g)) = some 104921 := by decide
example : gasLimit 12000 (lenFor 12000 104921) = 108000 := by decide

/-! ### A failed transaction changes no state except, at most, its sender's nonce

The model does not run code.  What it can carry: the *recorded* table writes of an indexer call whose single EVM run
failed (out of gas included) are checked by the driver (`failedTxOk`, reject `failed-tx-wrote-state`), and for every
call that passes this check and is accepted, the EVM state tables of the node after the call answer every key as
before - storage and code without exception, accounts except the sender's own row (nonce) and the coinbase row (the
zero address, which revm touches: rewritten with its current value or created as the empty account).  The tie: suite
E sends the recorded writes of every transaction; oracle `failed-tx-state` compares the storage and code tables of
the real engine before and after every failed transaction. -/

open Node in
/-- **Storage and code are untouched by a failed transaction, accounts except sender and coinbase too** - for every
node, every recorded event list that passes `failedTxOk`, every accepted `addTxs` whose single run failed. -/
theorem C16.failed_tx_changes_no_state (n : Node) (ts : Nat) (h : String) (idx : Nat) (txid : Option String)
    (evs : List Ev) (k : Option Nat) (fs : List (String × String)) (okRun : Bool) (gas logs : Nat)
    (hr : txRuns evs = [(fs, okRun, false, gas, logs)]) (hdisc : n.failedTxOk evs = true)
    (hok : (n.addTxs ts h idx txid evs k).2 = .ok) :
    (∀ key, ((n.addTxs ts h idx txid evs k).1.t .accountMemory).latest key = (n.t .accountMemory).latest key) ∧
    (∀ key, ((n.addTxs ts h idx txid evs k).1.t .code).latest key = (n.t .code).latest key) ∧
    (∀ key, key ≠ field fs "caller" → key ≠ zeroAddr →
      ((n.addTxs ts h idx txid evs k).1.t .account).latest key = (n.t .account).latest key) := by
  obtain ⟨_, _, _, _, _, n', happ, hn'⟩ := addTxs_ok hok
  obtain ⟨hm, hc, ha⟩ := failedTxOk_writes hr hdisc
  rw [hn']
  refine ⟨?_, ?_, ?_⟩
  · intro key
    exact applyEvents_table_frame .accountMemory happ (fun st k v hmem => absurd hmem (hm st k v))
  · intro key
    exact applyEvents_table_frame .code happ (fun st k v hmem => absurd hmem (hc st k v))
  · intro key h1 h2
    refine applyEvents_table_frame .account happ (fun st k v hmem => ?_)
    rcases ha st k v hmem with e | e
    · rw [e]; exact fun x => h1 x.symm
    · rw [e]; exact fun x => h2 x.symm

open Node in
/-- the check refuses a failed transaction that wrote a storage slot (non-vacuity of the discipline: the rule bites) -/
example : ({} : Node).failedTxOk
    [.x "tx" [("caller", "aa")] true false 21000 0, .s "account_memory" 0 "k" (some "v")] = false := by decide

open Node in
/-- and accepts the nonce bump of the sender together with the touched coinbase -/
example : ({} : Node).failedTxOk
    [.x "tx" [("caller", "aa")] true false 21000 0, .s "account" 0 "aa" (some "row"),
     .s "account" 0 zeroAddr (some emptyAccountRow)] = true := by decide

/-- the recorded events of a protocol line, as `DriverE.stepCore` parses them -/
def DriverE.eventsOf (line : String) : List Node.Ev := ((line.splitOn " ## ").drop 1).map DriverE.parseEv

open Node in
/-- **The driver applies the discipline to every single-transaction call**: a `deploy` / `call` / `deposit` /
`withdraw` line that the model answers `ok` passed `failedTxOk` (so `C16.failed_tx_changes_no_state` applies to it
whenever its run failed); a recorded failed run that wrote state is answered `model-reject` instead and shows up as a
broken correspondence. -/
theorem C16.accepted_call_passed_discipline (n : Node) (line : String)
    (hop : DriverE.opOf line = "deploy" ∨ DriverE.opOf line = "call" ∨ DriverE.opOf line = "deposit" ∨
      DriverE.opOf line = "withdraw")
    (hok : (DriverE.stepCore n line).2 = .inl .ok) : n.failedTxOk (DriverE.eventsOf line) = true := by
  unfold DriverE.opOf at hop
  unfold DriverE.stepCore at hok
  unfold DriverE.eventsOf
  rcases hop with h | h | h | h <;> simp only [h] at hok <;>
    (split at hok
     · cases hok
     · split at hok
       · cases hok
       · split at hok
         · cases hok
         · rename_i hd
           simpa using hd)

end Brc20
