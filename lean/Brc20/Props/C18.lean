/-
C18 - eth_getLogs returns exactly the matching logs, in chain order.

`logsInRange f t` stands for the logs of the receipts of blocks `f ..= t` in (block, transaction index, log index)
order; that the scan delivers exactly those, complete and ordered, is C13 (`range_scan_complete/sorted`) applied to
the (block, index) keys, whose encoded order is the numeric order (C14 `composite_keys_order`).
-/
import Brc20.Model.Logs
import Brc20.Gen.Constants

namespace Brc20
open Logs

theorem C18.span_constant : Gen.GET_LOGS_MAX_SPAN = 5 := by decide

/-- **Exactly the matching logs, each once, in chain order**: the result is the in-range list filtered, so it is a
sublist (order kept, nothing duplicated) containing precisely the members that match. -/
theorem C18.get_logs_exact (latest : Nat) (f t : Option Nat) (addr : Option String) (topics : Option (List Pos))
    (src : Nat → Nat → List Log) (out : List Log) (h : getLogs latest f t addr topics src = some out) :
    out = (src (resolveRange latest f t).1 (resolveRange latest f t).2).filter (logMatches addr topics) ∧
    out.Sublist (src (resolveRange latest f t).1 (resolveRange latest f t).2) ∧
    ∀ l, l ∈ out ↔ (l ∈ src (resolveRange latest f t).1 (resolveRange latest f t).2 ∧ logMatches addr topics l = true) := by
  unfold getLogs at h
  simp only at h
  split at h
  · simp at h
  · injection h with h; subst h
    exact ⟨rfl, List.filter_sublist, fun l => by simp [List.mem_filter]⟩

/-- **Range rule**: for heights below 2^63, a range is served iff `from ≤ to ≤ from + 5`; wider and reversed
ranges are refused. (In wrapping u64 arithmetic a reversed range with `from` within 5 of 2^64 would wrap to a small
number and be served - `from = 2^64 - 3, to = 0` - which is why the bound on heights is part of the statement.) -/
theorem C18.range_rule (f t : Nat) (hf : f < 2 ^ 63) (ht : t < 2 ^ 63) :
    rangeRefused f t = false ↔ (f ≤ t ∧ t ≤ f + 5) := by
  unfold rangeRefused U64
  have h64 : (2 : Nat) ^ 64 = 18446744073709551616 := by decide
  have h63 : (2 : Nat) ^ 63 = 9223372036854775808 := by decide
  rw [h63] at hf ht
  rw [h64]
  simp only [decide_eq_false_iff_not, Nat.not_lt]
  by_cases hle : f ≤ t
  · have e : (t + 18446744073709551616 - f) % 18446744073709551616 = t - f := by
      rw [show t + 18446744073709551616 - f = (t - f) + 18446744073709551616 by omega, Nat.add_mod_right,
        Nat.mod_eq_of_lt (by omega)]
    rw [e]; omega
  · have e : (t + 18446744073709551616 - f) % 18446744073709551616 = t + 18446744073709551616 - f :=
      Nat.mod_eq_of_lt (by omega)
    rw [e]
    have h1 : f > t := by omega
    have h2 : t + 18446744073709551616 - f = 18446744073709551616 - (f - t) := by omega
    rw [h2]
    constructor
    · intro h; exfalso; omega
    · intro h; exfalso; omega

/-- Defaults: no `from` means the latest block, no `to` means `from` (a single block, always served). -/
theorem C18.defaults (latest : Nat) (hl : latest < 2 ^ 63) :
    resolveRange latest none none = (latest, latest) ∧ rangeRefused latest latest = false := by
  refine ⟨rfl, ?_⟩
  exact (C18.range_rule latest latest hl hl).mpr ⟨Nat.le_refl _, by omega⟩

/-- Filter semantics, position by position. -/
theorem C18.wildcard_skips (lt : List String) (rest : List Pos) (i : Nat) :
    matchTopics lt (.any :: rest) i = matchTopics lt rest (i + 1) := rfl

theorem C18.single_is_equality (lt : List String) (t : String) (rest : List Pos) (i : Nat) :
    matchTopics lt (.one t :: rest) i = true ↔ (lt[i]? = some t ∧ matchTopics lt rest (i + 1) = true) := by
  simp only [matchTopics, Bool.and_eq_true]
  cases h : lt[i]? with
  | none => simp
  | some x => simp

theorem C18.list_is_any_of (lt : List String) (ts : List (Option String)) (rest : List Pos) (i : Nat) :
    matchTopics lt (.alts ts :: rest) i = true ↔
      ((∃ x, lt[i]? = some x ∧ some x ∈ ts) ∧ matchTopics lt rest (i + 1) = true) := by
  simp only [matchTopics, Bool.and_eq_true]
  cases h : lt[i]? with
  | none => simp
  | some x => simp [List.any_eq_true]

/-- A position beyond the log's topics fails unless it is a wildcard. -/
theorem C18.beyond_topics_fails (lt : List String) (p : Pos) (rest : List Pos) (i : Nat) (hi : lt.length ≤ i)
    (hp : match p with | .any => False | _ => True) : matchTopics lt (p :: rest) i = false := by
  have : lt[i]? = none := List.getElem?_eq_none hi
  cases p <;> simp_all [matchTopics]

/-- No filter at all returns everything in range. -/
theorem C18.no_filter_all (l : Log) : logMatches none none l = true := rfl

example : matchTopics ["a", "b"] [.any, .alts [some "x", some "b"]] 0 = true := by decide
example : matchTopics ["a"] [.any, .one "b"] 0 = false := by decide

end Brc20
