/-
C19 - Contracts see exactly the block context the indexer supplied.

The model does not build the environment: it *checks* the environment recorded from the real code (`Node.envOk`)
against what the indexer supplied, and refuses the events otherwise (a broken correspondence). These theorems say
what an accepted call guarantees about every run it contained.
-/
import Brc20.Model.DriverE
import Brc20.Props.C10
import Brc20.Model.Node
import Brc20.Proofs.Node
import Brc20.Model.Forks
import Brc20.Gen.Constants

namespace Brc20
open Node

/-- Every run of an accepted `add_tx` call saw: block number = the height being built, the supplied timestamp,
the supplied (or generated) block hash as randomness, zero base fee / gas price / value / coinbase. -/
theorem C19.accepted_runs_saw_supplied_context (n : Node) (ts : Nat) (h : String) (idx : Nat) (txid : Option String)
    (evs : List Ev) (k : Option Nat) (hok : (n.addTxs ts h idx txid evs k).2 = .ok) :
    ∀ r ∈ txRuns evs, envOk r.1 n.nextHeight ts (normHash h n.nextHeight) none = true := by
  exact (addTxs_ok hok).2.2.2.1

/-- ... and the first run (the submitted transaction itself) saw the Bitcoin transaction id supplied with it. -/
theorem C19.accepted_first_run_saw_txid (n : Node) (ts : Nat) (h : String) (idx : Nat) (txid : String)
    (evs : List Ev) (k : Option Nat) (hok : (n.addTxs ts h idx (some txid) evs k).2 = .ok) :
    ∃ r, (txRuns evs).head? = some r ∧ envOk r.1 n.nextHeight ts (normHash h n.nextHeight) (some txid) = true := by
  obtain ⟨_, hne, _, _, hh, _⟩ := addTxs_ok hok
  cases hr : txRuns evs with
  | nil => exact absurd hr hne
  | cons r rs => exact ⟨r, rfl, hh r (by rw [hr]; rfl)⟩

/-- A zero block hash is replaced by the generated one (block number + 1, big endian), never passed through. -/
theorem C19.zero_hash_generated (bn : Nat) : normHash zeroHash bn = generatedHash bn ∧
    (∀ h, h ≠ zeroHash → normHash h bn = h) := by
  refine ⟨by simp [normHash], ?_⟩
  intro h hh
  simp [normHash, hh]

/-- The block under construction records the supplied header on its first transaction and keeps it. -/
theorem C19.header_recorded (n : Node) (ts : Nat) (h : String) (txid : Option String) (evs : List Ev) (k : Option Nat)
    (hw : n.lbi.waiting = 0) (hok : (n.addTxs ts h 0 txid evs k).2 = .ok) :
    (n.addTxs ts h 0 txid evs k).1.lbi.ts = ts ∧ (n.addTxs ts h 0 txid evs k).1.lbi.hash = normHash h n.nextHeight := by
  obtain ⟨_, _, _, _, _, n', _, hn⟩ := addTxs_ok hok
  rw [hn]
  simp [bumpLbi_ts, bumpLbi_hash, l0, hw]

/-- The activation heights the model driver answers `fork` lines with are the ones in the source now. -/
theorem C19.fork_heights_pinned :
    Gen.PRAGUE_ACTIVATION_HEIGHT_MAINNET = 923369 ∧ Gen.PRAGUE_ACTIVATION_HEIGHT_SIGNET = 275000 ∧
    Gen.RLP_HASH_ACTIVATION_HEIGHT_MAINNET = 929000 ∧ Gen.RLP_HASH_ACTIVATION_HEIGHT_SIGNET = 0 := by decide

/-- "Where the Prague rules are in force, and only there": on mainnet exactly from the activation height on, on signet
exactly from its own, everywhere else (regtest, testnets, unknown names) at every height - for every height. -/
theorem C19.prague_in_force_iff (net : String) (h : Nat) :
    Forks.prague Gen.PRAGUE_ACTIVATION_HEIGHT_MAINNET Gen.PRAGUE_ACTIVATION_HEIGHT_SIGNET (Forks.netOf net) h = true ↔
      ((net = "bitcoin" ∨ net = "mainnet") ∧ Gen.PRAGUE_ACTIVATION_HEIGHT_MAINNET ≤ h) ∨
      (net = "signet" ∧ Gen.PRAGUE_ACTIVATION_HEIGHT_SIGNET ≤ h) ∨
      (net ≠ "bitcoin" ∧ net ≠ "mainnet" ∧ net ≠ "signet") := by
  unfold Forks.netOf
  by_cases h1 : net = "bitcoin"
  · subst h1; simp [Forks.prague]
  · by_cases h2 : net = "mainnet"
    · subst h2; simp [Forks.prague]
    · by_cases h3 : net = "signet"
      · subst h3; simp [Forks.prague]
      · simp [Forks.prague, h1, h2, h3]

/-- The rules never switch back: once in force at a height they are in force at every later height. -/
theorem C19.prague_monotone (pm ps : Nat) (net : Forks.Net) (h h' : Nat) (hle : h ≤ h')
    (hp : Forks.prague pm ps net h = true) : Forks.prague pm ps net h' = true := by
  cases net <;> simp [Forks.prague] at * <;> omega

/-! ### The current-txid helper across the activation height (parked transactions included) -/

/-- **"Where the Prague rules are in force, and only there"**, for the transaction that runs in block `exec` - whether
it was submitted in that block or parked in any earlier block `park` and drained now: under Prague the contract reads
the txid supplied with *that* transaction, before Prague it reads nothing; the parking block does not matter (the
model's answer to a `pbound` line does not take it; suite E sends `park` and `exec` on both sides of the height and
across it, on signet in every run and on mainnet in the thorough tier). -/
theorem C19.txid_seen_rule (net : String) (exec : Nat) (supplied : String) :
    Forks.txidSeen Gen.PRAGUE_ACTIVATION_HEIGHT_MAINNET Gen.PRAGUE_ACTIVATION_HEIGHT_SIGNET (Forks.netOf net) exec supplied zeroHash =
      if Forks.prague Gen.PRAGUE_ACTIVATION_HEIGHT_MAINNET Gen.PRAGUE_ACTIVATION_HEIGHT_SIGNET (Forks.netOf net) exec
      then supplied else zeroHash := rfl

/-- a transaction parked before the activation height and executed at or after it sees its own txid (signet) -/
theorem C19.parked_across_signet (park exec : Nat) (supplied : String) (_hp : park < Gen.PRAGUE_ACTIVATION_HEIGHT_SIGNET)
    (he : Gen.PRAGUE_ACTIVATION_HEIGHT_SIGNET ≤ exec) :
    Forks.txidSeen Gen.PRAGUE_ACTIVATION_HEIGHT_MAINNET Gen.PRAGUE_ACTIVATION_HEIGHT_SIGNET .signet exec supplied zeroHash = supplied := by
  simp [Forks.txidSeen, Forks.prague, he]

/-- and on mainnet -/
theorem C19.parked_across_mainnet (park exec : Nat) (supplied : String) (_hp : park < Gen.PRAGUE_ACTIVATION_HEIGHT_MAINNET)
    (he : Gen.PRAGUE_ACTIVATION_HEIGHT_MAINNET ≤ exec) :
    Forks.txidSeen Gen.PRAGUE_ACTIVATION_HEIGHT_MAINNET Gen.PRAGUE_ACTIVATION_HEIGHT_SIGNET .bitcoin exec supplied zeroHash = supplied := by
  simp [Forks.txidSeen, Forks.prague, he]

/-- before the activation height the helper answers nothing, whatever was supplied -/
theorem C19.no_txid_before_prague (exec : Nat) (supplied : String) (he : exec < Gen.PRAGUE_ACTIVATION_HEIGHT_SIGNET) :
    Forks.txidSeen Gen.PRAGUE_ACTIVATION_HEIGHT_MAINNET Gen.PRAGUE_ACTIVATION_HEIGHT_SIGNET .signet exec supplied zeroHash = zeroHash := by
  have : ¬ Gen.PRAGUE_ACTIVATION_HEIGHT_SIGNET ≤ exec := by omega
  simp [Forks.txidSeen, Forks.prague, this]

/-- Where the RLP-hash rule is in force at the parking block, a second signer parking the same (nonce, target, data)
does not disturb the first one's txid: the colliding case coincides with the plain rule. -/
theorem C19.no_collision_under_rlp_hash (net : Forks.Net) (park exec : Nat) (supplied other : String)
    (h : Forks.rlpHash Gen.RLP_HASH_ACTIVATION_HEIGHT_MAINNET Gen.RLP_HASH_ACTIVATION_HEIGHT_SIGNET net park = true) :
    Forks.txidSeenColliding Gen.PRAGUE_ACTIVATION_HEIGHT_MAINNET Gen.PRAGUE_ACTIVATION_HEIGHT_SIGNET
        Gen.RLP_HASH_ACTIVATION_HEIGHT_MAINNET Gen.RLP_HASH_ACTIVATION_HEIGHT_SIGNET net park exec supplied other zeroHash =
      Forks.txidSeen Gen.PRAGUE_ACTIVATION_HEIGHT_MAINNET Gen.PRAGUE_ACTIVATION_HEIGHT_SIGNET net exec supplied zeroHash := by
  simp [Forks.txidSeenColliding, Forks.txidSeen, h]

/-- ... which is every height on every network but mainnet -/
theorem C19.no_collision_off_mainnet (net : Forks.Net) (hn : net ≠ .bitcoin) (park : Nat) :
    Forks.rlpHash Gen.RLP_HASH_ACTIVATION_HEIGHT_MAINNET Gen.RLP_HASH_ACTIVATION_HEIGHT_SIGNET net park = true := by
  cases net with
  | bitcoin => exact absurd rfl hn
  | signet => simp [Forks.rlpHash, Gen.RLP_HASH_ACTIVATION_HEIGHT_SIGNET]
  | other => rfl

/-- **Known finding F21, machine-checked on the model**: on mainnet, for a pair parked below the RLP-hash activation
height and executed under Prague, the first transaction reads the *other* submission's txid - the property's "supplied
with that transaction" fails there; what holds is `C19.no_collision_under_rlp_hash`: the plain rule wherever the RLP-hash rule is in force at the parking block.
The witness is replayed on the real code in every run (corpus case `prague_boundary_mainnet`). -/
theorem C19.finding_F21_legacy_hash_collision :
    Forks.txidSeenColliding Gen.PRAGUE_ACTIVATION_HEIGHT_MAINNET Gen.PRAGUE_ACTIVATION_HEIGHT_SIGNET
        Gen.RLP_HASH_ACTIVATION_HEIGHT_MAINNET Gen.RLP_HASH_ACTIVATION_HEIGHT_SIGNET .bitcoin 923373 923374 "t26" "t27" zeroHash = "t27" := by
  decide

/-- the value a protocol line carries under key `k`, as `DriverE.stepCore` reads it -/
def DriverE.argOf (line k : String) : String :=
  field (DriverE.kvs ((((line.splitOn " ## ").headD "").trimAscii.toString.splitOn " ").filter (· ≠ ""))) k

/-- **What the driver answers to an observation of the Prague-boundary scenario is the rule above, with the activation
heights that are in the source now** (the driver carries the numbers; `Gen` is regenerated on every run): the node
plays no part, and for an ordinary observation neither does the parking block. -/
theorem C19.pbound_answer (n : Node) (line : String) (hop : DriverE.opOf line = "pbound")
    (hk : (DriverE.argOf line "kind" == "collide") = false) :
    DriverE.stepCore n line =
      (n, .inr ("seen=" ++ Forks.txidSeen Gen.PRAGUE_ACTIVATION_HEIGHT_MAINNET Gen.PRAGUE_ACTIVATION_HEIGHT_SIGNET
        (Forks.netOf (DriverE.argOf line "net")) (DriverE.argOf line "exec").toNat! (DriverE.argOf line "txid") zeroHash)) := by
  unfold DriverE.opOf at hop
  unfold DriverE.argOf at hk ⊢
  unfold DriverE.stepCore
  simp only [hop, hk, Bool.false_eq_true, if_false]
  rfl

/-- the same for an observation of the colliding pair: the driver answers with `txidSeenColliding` at the regenerated
heights (Prague and RLP-hash activation), so that finding F21 is reproduced exactly where `C19.finding_F21_legacy_hash_collision`
says and nowhere else (`C19.no_collision_under_rlp_hash`). -/
theorem C19.pbound_collide_answer (n : Node) (line : String) (hop : DriverE.opOf line = "pbound")
    (hk : (DriverE.argOf line "kind" == "collide") = true) :
    DriverE.stepCore n line =
      (n, .inr ("seen=" ++ Forks.txidSeenColliding Gen.PRAGUE_ACTIVATION_HEIGHT_MAINNET Gen.PRAGUE_ACTIVATION_HEIGHT_SIGNET
        Gen.RLP_HASH_ACTIVATION_HEIGHT_MAINNET Gen.RLP_HASH_ACTIVATION_HEIGHT_SIGNET
        (Forks.netOf (DriverE.argOf line "net")) (DriverE.argOf line "park").toNat! (DriverE.argOf line "exec").toNat!
        (DriverE.argOf line "txid") (DriverE.argOf line "other") zeroHash)) := by
  unfold DriverE.opOf at hop
  unfold DriverE.argOf at hk ⊢
  unfold DriverE.stepCore
  simp only [hop, hk, if_true]
  rfl

end Brc20
