/-
C19 - Contracts see exactly the block context the indexer supplied.

The model does not build the environment: it *checks* the environment recorded from the real code (`Node.envOk`)
against what the indexer supplied, and refuses the events otherwise (a broken correspondence). These theorems say
what an accepted call guarantees about every run it contained.
-/
import Brc20.Model.Node
import Brc20.Proofs.Node
import Brc20.Model.Forks
import Brc20.Gen.Constants

namespace Brc20
open Node

/-- Every run of an accepted `add_tx` call saw: block number = the height being built, the supplied timestamp,
the supplied (or generated) block hash as randomness, zero base fee / gas price / value / coinbase. -/
theorem C19.accepted_runs_saw_supplied_context (n : Node) (ts : Nat) (h : String) (idx : Nat) (txid : Option String)
    (evs : List Ev) (k : Option Nat) (hok : (n.addTxs ts h idx txid evs k).2 = .ok) :
    ∀ r ∈ txRuns evs, envOk r.1 n.nextHeight ts (normHash h n.nextHeight) none = true := by
  exact (addTxs_ok hok).2.2.2.1

/-- ... and the first run (the submitted transaction itself) saw the Bitcoin transaction id supplied with it. -/
theorem C19.accepted_first_run_saw_txid (n : Node) (ts : Nat) (h : String) (idx : Nat) (txid : String)
    (evs : List Ev) (k : Option Nat) (hok : (n.addTxs ts h idx (some txid) evs k).2 = .ok) :
    ∃ r, (txRuns evs).head? = some r ∧ envOk r.1 n.nextHeight ts (normHash h n.nextHeight) (some txid) = true := by
  obtain ⟨_, hne, _, _, hh, _⟩ := addTxs_ok hok
  cases hr : txRuns evs with
  | nil => exact absurd hr hne
  | cons r rs => exact ⟨r, rfl, hh r (by rw [hr]; rfl)⟩

/-- A zero block hash is replaced by the generated one (block number + 1, big endian), never passed through. -/
theorem C19.zero_hash_generated (bn : Nat) : normHash zeroHash bn = generatedHash bn ∧
    (∀ h, h ≠ zeroHash → normHash h bn = h) := by
  refine ⟨by simp [normHash], ?_⟩
  intro h hh
  simp [normHash, hh]

/-- The block under construction records the supplied header on its first transaction and keeps it. -/
theorem C19.header_recorded (n : Node) (ts : Nat) (h : String) (txid : Option String) (evs : List Ev) (k : Option Nat)
    (hw : n.lbi.waiting = 0) (hok : (n.addTxs ts h 0 txid evs k).2 = .ok) :
    (n.addTxs ts h 0 txid evs k).1.lbi.ts = ts ∧ (n.addTxs ts h 0 txid evs k).1.lbi.hash = normHash h n.nextHeight := by
  obtain ⟨_, _, _, _, _, n', _, hn⟩ := addTxs_ok hok
  rw [hn]
  simp [bumpLbi_ts, bumpLbi_hash, l0, hw]

/-- The activation heights the model driver answers `fork` lines with are the ones in the source now. -/
theorem C19.fork_heights_pinned :
    Gen.PRAGUE_ACTIVATION_HEIGHT_MAINNET = 923369 ∧ Gen.PRAGUE_ACTIVATION_HEIGHT_SIGNET = 275000 ∧
    Gen.RLP_HASH_ACTIVATION_HEIGHT_MAINNET = 929000 ∧ Gen.RLP_HASH_ACTIVATION_HEIGHT_SIGNET = 0 := by decide

/-- "Where the Prague rules are in force, and only there": on mainnet exactly from the activation height on, on signet
exactly from its own, everywhere else (regtest, testnets, unknown names) at every height - for every height. -/
theorem C19.prague_in_force_iff (net : String) (h : Nat) :
    Forks.prague Gen.PRAGUE_ACTIVATION_HEIGHT_MAINNET Gen.PRAGUE_ACTIVATION_HEIGHT_SIGNET (Forks.netOf net) h = true ↔
      ((net = "bitcoin" ∨ net = "mainnet") ∧ Gen.PRAGUE_ACTIVATION_HEIGHT_MAINNET ≤ h) ∨
      (net = "signet" ∧ Gen.PRAGUE_ACTIVATION_HEIGHT_SIGNET ≤ h) ∨
      (net ≠ "bitcoin" ∧ net ≠ "mainnet" ∧ net ≠ "signet") := by
  unfold Forks.netOf
  by_cases h1 : net = "bitcoin"
  · subst h1; simp [Forks.prague]
  · by_cases h2 : net = "mainnet"
    · subst h2; simp [Forks.prague]
    · by_cases h3 : net = "signet"
      · subst h3; simp [Forks.prague]
      · simp [Forks.prague, h1, h2, h3]

/-- The rules never switch back: once in force at a height they are in force at every later height. -/
theorem C19.prague_monotone (pm ps : Nat) (net : Forks.Net) (h h' : Nat) (hle : h ≤ h')
    (hp : Forks.prague pm ps net h = true) : Forks.prague pm ps net h' = true := by
  cases net <;> simp [Forks.prague] at * <;> omega

end Brc20
