/-
C19 - Contracts see exactly the block context the indexer supplied.

The model does not build the environment: it *checks* the environment recorded from the real code (`Node.envOk`)
against what the indexer supplied, and refuses the events otherwise (a broken correspondence). These theorems say
what an accepted call guarantees about every run it contained.
-/
import Brc20.Model.Node
import Brc20.Proofs.Node

namespace Brc20
open Node

/-- Every run of an accepted `add_tx` call saw: block number = the height being built, the supplied timestamp,
the supplied (or generated) block hash as randomness, zero base fee / gas price / value / coinbase. -/
theorem C19.accepted_runs_saw_supplied_context (n : Node) (ts : Nat) (h : String) (idx : Nat) (txid : Option String)
    (evs : List Ev) (k : Option Nat) (hok : (n.addTxs ts h idx txid evs k).2 = .ok) :
    ∀ r ∈ txRuns evs, envOk r.1 n.nextHeight ts (normHash h n.nextHeight) none = true := by
  exact (addTxs_ok hok).2.2.2.1

/-- ... and the first run (the submitted transaction itself) saw the Bitcoin transaction id supplied with it. -/
theorem C19.accepted_first_run_saw_txid (n : Node) (ts : Nat) (h : String) (idx : Nat) (txid : String)
    (evs : List Ev) (k : Option Nat) (hok : (n.addTxs ts h idx (some txid) evs k).2 = .ok) :
    ∃ r, (txRuns evs).head? = some r ∧ envOk r.1 n.nextHeight ts (normHash h n.nextHeight) (some txid) = true := by
  obtain ⟨_, hne, _, _, hh, _⟩ := addTxs_ok hok
  cases hr : txRuns evs with
  | nil => exact absurd hr hne
  | cons r rs => exact ⟨r, rfl, hh r (by rw [hr]; rfl)⟩

/-- A zero block hash is replaced by the generated one (block number + 1, big endian), never passed through. -/
theorem C19.zero_hash_generated (bn : Nat) : normHash zeroHash bn = generatedHash bn ∧
    (∀ h, h ≠ zeroHash → normHash h bn = h) := by
  refine ⟨by simp [normHash], ?_⟩
  intro h hh
  simp [normHash, hh]

/-- The block under construction records the supplied header on its first transaction and keeps it. -/
theorem C19.header_recorded (n : Node) (ts : Nat) (h : String) (txid : Option String) (evs : List Ev) (k : Option Nat)
    (hw : n.lbi.waiting = 0) (hok : (n.addTxs ts h 0 txid evs k).2 = .ok) :
    (n.addTxs ts h 0 txid evs k).1.lbi.ts = ts ∧ (n.addTxs ts h 0 txid evs k).1.lbi.hash = normHash h n.nextHeight := by
  obtain ⟨_, _, _, _, _, n', _, hn⟩ := addTxs_ok hok
  rw [hn]
  simp [bumpLbi_ts, bumpLbi_hash, l0, hw]

end Brc20
