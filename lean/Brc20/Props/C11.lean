/-
C11 - Concurrent readers and the indexer can never deadlock the server.

Model: `Model/Locks.lean` (writer-preferring read-write locks, interleaving of any number of threads).
Tie: `Gen/LockTraces.lean` holds every distinct lock program the running code showed (all RPC methods, recorded by
the tracer hook on every run) and a proposed lock order; the kernel re-checks every program against that order here.
Locks that are never write-locked while serving (`Gen.readOnlyLocks`, i.e. the process configuration) are not part of
the programs: readers of a lock nobody writes never wait.
Not covered: fairness of the OS scheduler, locks inside RocksDB / tokio; dynamic traces cover executed paths only.
-/
import Brc20.Proofs.Locks
import Brc20.Gen.LockTraces

namespace Brc20
open Locks

/-- **Every recorded handler obeys the discipline** (no re-acquisition of a held lock, acquisitions in strictly
increasing order of `Gen.lockRank`, balanced releases): kernel-checked over the whole regenerated table. -/
theorem C11.handlers_disciplined : Gen.lockPrograms.all (fun p => checkProg Gen.lockRank p.2 []) = true := by
  decide

/-- **No deadlock**: any number of threads, each running any of the recorded handler programs, under any
interleaving: every reachable state in which some request is unfinished has a thread that can take a step. -/
theorem C11.no_deadlock (ps : List Prog) (hps : ∀ p ∈ ps, p ∈ Gen.lockPrograms.map (·.2)) (s : Sys)
    (hr : Reach (initSys ps) s) : ¬ Stuck s := by
  apply disciplined_never_stuck Gen.lockRank ps _ s hr
  intro p hp
  obtain ⟨q, hq, rfl⟩ := List.mem_map.mp (hps p hp)
  have := List.all_eq_true.mp C11.handlers_disciplined q hq
  simpa [Disciplined] using this

/-- **Every request completes**: each step strictly decreases a natural-number measure, so every run is finite;
with `no_deadlock`, a maximal run ends with all requests finished. -/
theorem C11.runs_are_finite (s s' : Sys) (h : Step s s') : Locks.measure s' < Locks.measure s :=
  step_decreases s s' h

/-- The hazard the discipline excludes is real: a second read guard of a lock the thread already read-holds, with
a writer queued in between, blocks both forever (this is what `get_block_by_hash` did before the `fix:`). -/
theorem C11.reentrant_read_is_a_deadlock :
    ∃ s, Reach (initSys [[.rd 0, .rd 0, .rel 0, .rel 0], [.wr 0, .rel 0]]) s ∧ Stuck s :=
  ⟨_, reentrant_read_reachable, reentrant_read_deadlocks⟩

/-- ... and so is taking two locks in opposite orders. -/
theorem C11.order_inversion_is_a_deadlock :
    ∃ s, Reach (initSys [[.wr 0, .wr 1, .rel 1, .rel 0], [.wr 1, .wr 0, .rel 0, .rel 1]]) s ∧ Stuck s :=
  order_inversion_deadlocks

/-- The engine's two state locks are in the table, the database lock first (so the order is the intended one). -/
theorem C11.state_locks_ordered :
    Gen.lockNames.idxOf "Brc20ProgDatabase" < Gen.lockNames.length ∧
    Gen.lockNames.idxOf "LastBlockInfo" < Gen.lockNames.length ∧
    Gen.lockRank (Gen.lockNames.idxOf "Brc20ProgDatabase") < Gen.lockRank (Gen.lockNames.idxOf "LastBlockInfo") := by
  decide

end Brc20
