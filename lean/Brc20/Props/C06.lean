/-
C06 - Blocks, transactions, receipts, logs and inscription indexes are coherent.

Model-level part: heights are contiguous, the hash <-> number rows are written together and invert each other,
the per-block counters (transaction count, cumulative gas, log index) are running sums.  The content of rows
(receipts, blooms, merkle roots, raw encodings) is opaque to the model and checked on the real code by the
coherence oracle of suite E at every block boundary.
-/
import Brc20.Model.Node
import Brc20.Proofs.Node

namespace Brc20
open Node

/-- An accepted finalise creates exactly the next height: the hash row, both block rows and the hash index exist
for it, and the next height advances by one. -/
theorem C06.finalise_creates_next_height (n : Node) (ts : Nat) (h : String) (count : Nat) (evs : List Ev)
    (hok : (n.finaliseOne ts h count evs).2 = .ok) :
    let n' := (n.finaliseOne ts h count evs).1
    n'.blockHashAt n.nextHeight = some (normHash h n.nextHeight) ∧
    n'.blockNumberOf (normHash h n.nextHeight) = some (hexN 16 n.nextHeight) ∧
    ((n'.b .block).get n.nextHeight).isSome ∧ ((n'.b .rawBlock).get n.nextHeight).isSome ∧
    n'.lbi = {} := by
  obtain ⟨_, n', _, h1, h2, h3, h4, ht, hb, hl⟩ := finaliseOne_ok hok
  simp only [blockHashAt, blockNumberOf, ht, hb]
  exact ⟨h1, h4, h2, h3, hl⟩

/-- A finalise is only accepted with the exact number of transactions appended to the block. -/
theorem C06.finalise_count_exact (n : Node) (ts : Nat) (h : String) (count : Nat) (evs : List Ev)
    (hok : (n.finaliseOne ts h count evs).2 = .ok) : count = n.lbi.waiting := by
  exact ((validateNextTx_none (finaliseOne_ok hok).1).1).symm

/-- Transaction indexes are consecutive: an accepted call appends at index `waiting` and advances the count by the
number of runs. -/
theorem C06.indexes_consecutive (n : Node) (ts : Nat) (h : String) (idx : Nat) (txid : Option String) (evs : List Ev)
    (k : Option Nat) (hok : (n.addTxs ts h idx txid evs k).2 = .ok) :
    idx = n.lbi.waiting ∧ (n.addTxs ts h idx txid evs k).1.lbi.waiting = n.lbi.waiting + (txRuns evs).length := by
  obtain ⟨hv, _, _, _, _, n', _, hn⟩ := addTxs_ok hok
  refine ⟨(validateNextTx_none hv).1.symm, ?_⟩
  rw [hn]
  simp only [bumpLbi_waiting, l0_waiting]

/-- The log index of the block is a running sum of the logs of accepted runs, and never decreases. -/
theorem C06.log_index_running_sum (l : Lbi) (runs : List (List (String × String) × Bool × Bool × Nat × Nat)) :
    (bumpLbi l runs).logIndex = l.logIndex + (runs.map (fun r => if r.2.1 then r.2.2.2.2 else 0)).sum ∧
    (bumpLbi l runs).waiting = l.waiting + runs.length := by
  exact ⟨bumpLbi_logIndex l runs, bumpLbi_waiting l runs⟩

/-- Cumulative gas is the running sum of the gas of accepted runs as long as it fits in 64 bits. -/
theorem C06.gas_running_sum (l : Lbi) (runs : List (List (String × String) × Bool × Bool × Nat × Nat))
    (hfit : l.gasUsed + (runs.map (fun r => if r.2.1 then r.2.2.2.1 else 0)).sum ≤ U64MAX) :
    (bumpLbi l runs).gasUsed = l.gasUsed + (runs.map (fun r => if r.2.1 then r.2.2.2.1 else 0)).sum := by
  exact bumpLbi_gasUsed l runs hfit

end Brc20
