/-
C06 - Blocks, transactions, receipts, logs and inscription indexes are coherent.

Model-level part: heights are contiguous, the hash <-> number rows are written together and invert each other,
the per-block counters (transaction count, cumulative gas, log index) are running sums.  The content of rows
(receipts, blooms, merkle roots, raw encodings) is opaque to the model and checked on the real code by the
coherence oracle of suite E at every block boundary.
-/
import Brc20.Model.Node
import Brc20.Proofs.Node
import Brc20.Proofs.ReachProps

namespace Brc20
open Node

/-- An accepted finalise creates exactly the next height: the hash row, both block rows and the hash index exist
for it, and the next height advances by one. -/
theorem C06.finalise_creates_next_height (n : Node) (ts : Nat) (h : String) (count : Nat) (evs : List Ev)
    (hok : (n.finaliseOne ts h count evs).2 = .ok) :
    let n' := (n.finaliseOne ts h count evs).1
    n'.blockHashAt n.nextHeight = some (normHash h n.nextHeight) ∧
    n'.blockNumberOf (normHash h n.nextHeight) = some (hexN 16 n.nextHeight) ∧
    ((n'.b .block).get n.nextHeight).isSome ∧ ((n'.b .rawBlock).get n.nextHeight).isSome ∧
    n'.lbi = {} := by
  obtain ⟨_, n', _, h1, h2, h3, h4, ht, hb, hl, _⟩ := finaliseOne_ok hok
  simp only [blockHashAt, blockNumberOf, ht, hb]
  exact ⟨h1, h4, h2, h3, hl⟩

/-- A finalise is only accepted with the exact number of transactions appended to the block. -/
theorem C06.finalise_count_exact (n : Node) (ts : Nat) (h : String) (count : Nat) (evs : List Ev)
    (hok : (n.finaliseOne ts h count evs).2 = .ok) : count = n.lbi.waiting := by
  exact ((validateNextTx_none (finaliseOne_ok hok).1).1).symm

/-- Transaction indexes are consecutive: an accepted call appends at index `waiting` and advances the count by the
number of runs. -/
theorem C06.indexes_consecutive (n : Node) (ts : Nat) (h : String) (idx : Nat) (txid : Option String) (evs : List Ev)
    (k : Option Nat) (hok : (n.addTxs ts h idx txid evs k).2 = .ok) :
    idx = n.lbi.waiting ∧ (n.addTxs ts h idx txid evs k).1.lbi.waiting = n.lbi.waiting + (txRuns evs).length := by
  obtain ⟨hv, _, _, _, _, n', _, hn⟩ := addTxs_ok hok
  refine ⟨(validateNextTx_none hv).1.symm, ?_⟩
  rw [hn]
  simp only [bumpLbi_waiting, l0_waiting]

/-- The log index of the block is a running sum of the logs of accepted runs, and never decreases. -/
theorem C06.log_index_running_sum (l : Lbi) (runs : List (List (String × String) × Bool × Bool × Nat × Nat)) :
    (bumpLbi l runs).logIndex = l.logIndex + (runs.map (fun r => if r.2.1 then r.2.2.2.2 else 0)).sum ∧
    (bumpLbi l runs).waiting = l.waiting + runs.length := by
  exact ⟨bumpLbi_logIndex l runs, bumpLbi_waiting l runs⟩

/-- Cumulative gas is the running sum of the gas of accepted runs as long as it fits in 64 bits. -/
theorem C06.gas_running_sum (l : Lbi) (runs : List (List (String × String) × Bool × Bool × Nat × Nat))
    (hfit : l.gasUsed + (runs.map (fun r => if r.2.1 then r.2.2.2.1 else 0)).sum ≤ U64MAX) :
    (bumpLbi l runs).gasUsed = l.gasUsed + (runs.map (fun r => if r.2.1 then r.2.2.2.1 else 0)).sum := by
  exact bumpLbi_gasUsed l runs hfit

/-! ## Heights on every reachable state

`Node.Reach n` (Proofs/NodeRun.lean): `n` is the empty node or the result of any call with any arguments and any
recorded events on a reachable node, as long as the model answered `ok` or `err`. -/

/-- **Heights are contiguous on every reachable node.**
  1. the rows of the block-number -> hash table are gap-free: every number up to the newest row has a row;
  2. every number below the next height has a hash row, and no hash row lies above the next height;
  3. at a block boundary the hash rows are exactly the numbers below the next height, and both heights are read off
     the newest row;
  4. the next height is the current height plus one, except on an empty database (both are 0);
  5. the tip block (the in-memory height and hash) has its hash row - with that hash - and both block rows. -/
theorem C06.heights_contiguous_reachable (n : Node) (hr : Reach n) :
    (∀ e, (n.b .numberToHash).lastKey = some e → ∀ k, k ≤ e → (n.b .numberToHash).get k ≠ none) ∧
    ((∀ k, k < n.nextHeight → (n.b .numberToHash).get k ≠ none) ∧
     (∀ k, (n.b .numberToHash).get k ≠ none → k ≤ n.nextHeight)) ∧
    (n.lbi.waiting = 0 →
      (∀ k, (n.b .numberToHash).get k ≠ none ↔ k < n.nextHeight) ∧
      n.latestHeight = ((n.b .numberToHash).lastKey).getD 0 ∧
      n.nextHeight = (match (n.b .numberToHash).lastKey with | some k => k + 1 | none => 0)) ∧
    (n.nextHeight = n.latestHeight + 1 ∨
      (n.nextHeight = 0 ∧ n.latestHeight = 0 ∧ ∀ k, (n.b .numberToHash).get k = none)) ∧
    (∀ h x, n.latest = some (h, x) →
      n.blockHashAt h = some x ∧ (n.b .block).get h ≠ none ∧ (n.b .rawBlock).get h ≠ none) := by
  obtain ⟨G, hG⟩ := hr.inv
  have hh := hr.hinv
  have hbelow : ∀ k, k < n.nextHeight → (n.b .numberToHash).get k ≠ none := by
    intro k hk
    have h1 := nextHeight_le_nextOf hG.core.latest_row
    cases hl : (n.b .numberToHash).lastKey with
    | none => rw [hl] at h1; simp only [BlockDb.nextOf] at h1; omega
    | some e =>
      rw [hl] at h1
      simp only [BlockDb.nextOf] at h1
      exact hG.core.contig e hl k (by omega)
  refine ⟨hG.core.contig, ⟨hbelow, hh.rows_next⟩, ?_, ?_, hh.tip⟩
  · intro hw
    obtain ⟨e1, e2⟩ := hh.heights_bdry hw
    refine ⟨fun k => ⟨hh.rows_bdry hw k, hbelow k⟩, e1, ?_⟩
    rw [e2]
    cases (n.b .numberToHash).lastKey <;> rfl
  · rw [nextHeight_eq, latestHeight_eq]
    cases n.latest with
    | some p => exact Or.inl rfl
    | none =>
      cases hl : (n.b .numberToHash).lastKey with
      | some e => exact Or.inl rfl
      | none => exact Or.inr ⟨rfl, rfl, BlockDb.get_eq_none_of_lastKey_none hl⟩

/-- **The three block tables on every reachable node**: every row of the block table and of the raw-block table has
a hash row of the same number - except, while a block is under construction, possibly a row of the number being
built. At a block boundary every row of the three tables lies below the next height and has a hash row. (Superseded by `C06.block_tables_move_together_reachable`, which gives equality of the three row sets,
mid-block included.) -/
theorem C06.block_rows_have_hash_row_reachable (n : Node) (hr : Reach n) :
    (∀ i k, (n.b i).get k ≠ none →
      (n.b .numberToHash).get k ≠ none ∨ (k = n.nextHeight ∧ n.lbi.waiting ≠ 0)) ∧
    (n.lbi.waiting = 0 → ∀ i k, (n.b i).get k ≠ none → k < n.nextHeight ∧ (n.b .numberToHash).get k ≠ none) := by
  have hs := hr.sinv
  refine ⟨hs.sub, ?_⟩
  intro hw i k hk
  rcases hs.sub i k hk with h1 | h1
  · exact ⟨hr.hinv.rows_bdry hw k h1, h1⟩
  · exact absurd hw h1.2

/-- **The three block tables move together, on every reachable node.** For the block table, the raw-block table and
the block-number -> hash table alike:
  1. there is a row for exactly the numbers below the height being built - `0 … latestHeight` on a non-empty
     database, gap-free, the same numbers in the three tables;
  2. this holds mid-block as well as at a block boundary: a call that adds transactions writes no block-table row, so
     the block under construction has no row in any of the three tables until its finalise writes all three;
  3. the next height is the current height plus one, except on an empty database (both are 0, no rows);
  4. the persistent columns (what a `clear` / restart keeps) hold rows for exactly the numbers below the height the
     restart continues at - again the same numbers in the three tables.
(The model refuses recorded block-table writes in a call that adds transactions and the finalise of a block writes the
rows of that block only; before that tightening this was false in the model, see the example below.) -/
theorem C06.block_tables_move_together_reachable (n : Node) (hr : Reach n) :
    (∀ i k, (n.b i).get k ≠ none ↔ k < n.nextHeight) ∧
    (n.nextHeight = n.latestHeight + 1 ∨
      (n.nextHeight = 0 ∧ n.latestHeight = 0 ∧ ∀ i k, (n.b i).get k = none)) ∧
    (∀ i k, (n.b i).clear.get k ≠ none ↔ k < ((n.clear).1).nextHeight) := by
  obtain ⟨h1, h2⟩ := hr.block_rows
  refine ⟨h1, ?_, ?_⟩
  · rcases (C06.heights_contiguous_reachable n hr).2.2.2.1 with h | ⟨h3, h4, _⟩
    · exact Or.inl h
    · refine Or.inr ⟨h3, h4, ?_⟩
      intro i k
      cases hg : (n.b i).get k with
      | none => rfl
      | some v =>
        have := (h1 i k).mp (by rw [hg]; simp)
        omega
  · have e : ((n.clear).1).nextHeight = n.durNext := by rw [nextHeight_eq]; rfl
    rw [e]; exact h2

/-- the same at a block boundary, in terms of the current height: on a non-empty database the rows of each of the
three tables are exactly the numbers `0 … latestHeight` -/
theorem C06.block_tables_rows_upto_height (n : Node) (hr : Reach n) (hne : n.nextHeight ≠ 0) :
    ∀ i k, (n.b i).get k ≠ none ↔ k ≤ n.latestHeight := by
  obtain ⟨h1, h2, _⟩ := C06.block_tables_move_together_reachable n hr
  intro i k
  rw [h1 i k]
  rcases h2 with h | ⟨h, _⟩
  · omega
  · exact absurd h hne

namespace C06.Example
open Node.Example

-- the parked row of `Node.Example` is a 162-character string that `decide` has to walk through
set_option maxRecDepth 8192

/-- the first transaction of block 0 on the empty node (explicit block hash `abcd`); its recorded writes contain a
`block_number_to_hash` row for the block under construction -/
def evTx0 : List Ev :=
  [ .x "tx" [("number", "0"), ("ts", "100"), ("prevrandao", "abcd"), ("basefee", "0"), ("gasprice", "0"),
             ("value", "0"), ("coinbase", addr0), ("txid", "ab"), ("blockgaslimit", "18446744073709551615")] true true 21000 0,
    .s "account" 0 "aa" (some acct0),
    .s "block_number_to_hash" 0 "0000000000000000" (some "zz") ]

/-- **The former counterexample is now rejected by the model.** `addTxs` used to accept the recorded
`block_number_to_hash` row (the engine's `add_tx_to_block` issues none), after which a finalise at height 1 and a
commit gave a reachable node whose hash table had rows 0 and 1 while the block and raw-block tables had row 1 only.
The call is now refused (`tx-wrote-block-table`), the node is left alone, and the same call without the block-table
write is accepted. -/
example : (({} : Node).addTxs 100 "abcd" 0 (some "ab") evTx0 (some 1)).2 = .reject "tx-wrote-block-table" ∧
    (({} : Node).addTxs 100 "abcd" 0 (some "ab") evTx0 (some 1)).1.nextHeight = 0 ∧
    (({} : Node).addTxs 100 "abcd" 0 (some "ab") (evTx0.take 2) (some 1)).2 = .ok := by decide

/-- a finalise whose recorded writes contain a versioned-table write that `finalise_block` never issues (an `account`
row) is rejected too, and so is a hash-index row keyed by another hash -/
example : (final.1.finaliseOne 400 zeroHash 0
      [ .s "block_number_to_block" 3 "0000000000000003" (some "b3"),
        .s "block_number_to_raw_block" 3 "0000000000000003" (some "r3"),
        .s "account" 3 "aa" (some acct0),
        .s "block_number_to_hash" 3 "0000000000000003" (some (generatedHash 3)),
        .s "block_hash_to_number" 3 (generatedHash 3) (some (hexN 16 3)) ]).2 = .reject "fin-wrote" ∧
    (final.1.finaliseOne 400 zeroHash 0
      [ .s "block_number_to_block" 3 "0000000000000003" (some "b3"),
        .s "block_number_to_raw_block" 3 "0000000000000003" (some "r3"),
        .s "block_number_to_hash" 3 "0000000000000003" (some (generatedHash 3)),
        .s "block_hash_to_number" 3 (generatedHash 3) (some (hexN 16 3)),
        .s "block_hash_to_number" 3 (generatedHash 7) (some (hexN 16 3)) ]).2 = .reject "fin-wrote" ∧
    (final.1.finaliseOne 400 zeroHash 0
      [ .s "block_number_to_block" 3 "0000000000000003" (some "b3"),
        .s "block_number_to_raw_block" 3 "0000000000000003" (some "r3"),
        .s "account_and_nonce_to_tx_hash" 3 "aa0000000000000001" none,
        .s "block_number_to_hash" 3 "0000000000000003" (some (generatedHash 3)),
        .s "block_hash_to_number" 3 (generatedHash 3) (some (hexN 16 3)) ]).2 = .ok := by decide

/-- Non-vacuity of `C06.block_tables_move_together_reachable` on the node of `Node.Example` (height 2, committed) and
mid-block on the node of its first three calls (block 1 under construction): rows 0, 1, 2 resp. row 0 in each of the
three tables. -/
example : (∀ i k, (final.1.b i).get k ≠ none ↔ k < 3) ∧
    (∀ i k, ((runOps (ops.take 3) ({}, Ghost.init)).1.b i).get k ≠ none ↔ k < 1) ∧
    (runOps (ops.take 3) ({}, Ghost.init)).1.lbi.waiting = 1 := by
  have hn : final.1.nextHeight = 3 := by decide
  have hm : (runOps (ops.take 3) ({}, Ghost.init)).1.nextHeight = 1 := by decide
  have hr : ReachG (runOps (ops.take 3) ({}, Ghost.init)).1 (runOps (ops.take 3) ({}, Ghost.init)).2 :=
    reachG_runOps (ops.take 3) ReachG.init (by decide) (by decide)
  rw [← hn, ← hm]
  exact ⟨(C06.block_tables_move_together_reachable final.1 final_reach.reach).1,
    (C06.block_tables_move_together_reachable _ hr.reach).1, by decide⟩

/-- Non-vacuity of `C06.heights_contiguous_reachable` on the node of `Node.Example` (height 2, committed). -/
example : (∀ k, (final.1.b .numberToHash).get k ≠ none ↔ k < 3) ∧ final.1.latestHeight = 2 := by
  obtain ⟨_, _, h3, _, _⟩ := C06.heights_contiguous_reachable final.1 final_reach.reach
  have hn : final.1.nextHeight = 3 := by decide
  rw [← hn]
  exact ⟨(h3 (by decide)).1, by decide⟩

end C06.Example

end Brc20
