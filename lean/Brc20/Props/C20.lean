/-
C20 - A database only reopens under the configuration it was created with.
-/
import Brc20.Model.Config
import Brc20.Proofs.AMap
import Brc20.Gen.Constants
import Brc20.Gen.StartOrder

namespace Brc20
open Config

private theorem rows_created (c : Cfg) :
    (writeRows [] c).get? kDb = some c.dbVersion ∧ (writeRows [] c).get? kProto = some c.protocolVersion ∧
    (writeRows [] c).get? kNet = some c.network ∧ (writeRows [] c).get? kTraces = some c.traces := by
  simp [writeRows, rowsOf, AMap.get?_insert, kDb, kProto, kNet, kTraces]

/-- A missing or empty directory is initialised with the four records of the creating configuration. -/
theorem C20.fresh_creates (c : Cfg) :
    validate .missing c = .ok (created c) ∧ validate (.dir false []) c = .ok (created c) := by
  constructor <;> rfl

/-- **Reopen iff same**: a directory created under `c` reopens under `c'` exactly when all four recorded
settings coincide, and reopening leaves it unchanged. -/
theorem C20.reopen_iff_same (c c' : Cfg) :
    (∃ d, validate (created c) c' = .ok d) ↔ c' = c := by
  obtain ⟨h1, h2, h3, h4⟩ := rows_created c
  constructor
  · rintro ⟨d, hd⟩
    simp only [created, validate, validateKey, h1, h2, h3, h4] at hd
    by_cases e1 : c.dbVersion = c'.dbVersion <;> simp [e1] at hd
    by_cases e2 : c.protocolVersion = c'.protocolVersion <;> simp [e2] at hd
    by_cases e3 : c.network = c'.network <;> simp [e3] at hd
    by_cases e4 : c.traces = c'.traces <;> simp [e4] at hd
    cases c; cases c'; simp_all
  · rintro rfl
    exact ⟨created c', by simp [created, validate, validateKey, h1, h2, h3, h4]⟩

theorem C20.same_config_reopens_unchanged (c : Cfg) : validate (created c) c = .ok (created c) := by
  obtain ⟨h1, h2, h3, h4⟩ := rows_created c
  simp [created, validate, validateKey, h1, h2, h3, h4]

/-- Any single differing setting is reported as a mismatch (never served under different rules). -/
theorem C20.mismatch_fails (c c' : Cfg) (h : c' ≠ c) : ∃ k, validate (created c) c' = .error (.mismatch k) := by
  obtain ⟨h1, h2, h3, h4⟩ := rows_created c
  simp only [created, validate, validateKey, h1, h2, h3, h4]
  by_cases e1 : c.dbVersion = c'.dbVersion
  · by_cases e2 : c.protocolVersion = c'.protocolVersion
    · by_cases e3 : c.network = c'.network
      · by_cases e4 : c.traces = c'.traces
        · exfalso; apply h; cases c; cases c'; simp_all
        · exact ⟨kTraces, by simp [e1, e2, e3, e4]⟩
      · exact ⟨kNet, by simp [e1, e2, e3]⟩
    · exact ⟨kProto, by simp [e1, e2]⟩
  · exact ⟨kDb, by simp [e1]⟩

/-- A non-empty directory that lacks any of the four records makes start-up fail (foreign or tampered). -/
theorem C20.foreign_dir_fails (rows : AMap String String) (c : Cfg)
    (h : rows.get? kDb = none ∨ rows.get? kProto = none ∨ rows.get? kNet = none ∨ rows.get? kTraces = none) :
    ∃ e, validate (.dir true rows) c = .error e := by
  simp only [validate, validateKey]
  cases h1 : rows.get? kDb with
  | none => exact ⟨_, rfl⟩
  | some v1 =>
    by_cases e1 : v1 = c.dbVersion <;> simp only [e1, if_true, if_false]
    · cases h2 : rows.get? kProto with
      | none => exact ⟨_, rfl⟩
      | some v2 =>
        by_cases e2 : v2 = c.protocolVersion <;> simp only [e2, if_true, if_false]
        · cases h3 : rows.get? kNet with
          | none => exact ⟨_, rfl⟩
          | some v3 =>
            by_cases e3 : v3 = c.network <;> simp only [e3, if_true, if_false]
            · cases h4 : rows.get? kTraces with
              | none => exact ⟨_, rfl⟩
              | some v4 => simp [h1, h2, h3, h4] at h
            · exact ⟨_, rfl⟩
        · exact ⟨_, rfl⟩
    · exact ⟨_, rfl⟩

/-- A path that is not a directory is refused. -/
theorem C20.not_a_directory (c : Cfg) : validate .file c = .error .notDirectory := rfl

/-- Acceptance never rewrites an existing non-empty directory. -/
theorem C20.accept_leaves_rows (rows : AMap String String) (c : Cfg) (d : Dir)
    (h : validate (.dir true rows) c = .ok d) : d = .dir true rows := by
  simp only [validate] at h
  repeat (split at h <;> try (simp at h))
  exact h.symm

/-- **Tie to the source** (regenerated on every run): `start()` validates the configuration database before it
opens the engine's database, and both happen before the RPC server starts. -/
theorem C20.start_validates_first :
    Gen.startOrder.idxOf "validate_config_database" < Gen.startOrder.idxOf "Brc20ProgDatabase::new" ∧
    Gen.startOrder.idxOf "Brc20ProgDatabase::new" < Gen.startOrder.idxOf "start_rpc_server" ∧
    "validate_config_database" ∈ Gen.startOrder ∧ "Brc20ProgDatabase::new" ∈ Gen.startOrder := by decide

/-- ... and `validate_config_database` checks all four keys, writes the same four on a fresh run. -/
theorem C20.four_keys_in_source :
    Gen.validatedKeys = ["DB_VERSION_KEY", "PROTOCOL_VERSION_KEY", "BITCOIN_RPC_NETWORK_KEY", "EVM_RECORD_TRACES_KEY"] ∧
    Gen.writtenKeys = ["DB_VERSION_KEY", "PROTOCOL_VERSION_KEY", "BITCOIN_RPC_NETWORK_KEY", "EVM_RECORD_TRACES_KEY"] := by decide

/-! Non-vacuity -/
example : ∃ k, validate (created ⟨"7", "2", "signet", "false"⟩) ⟨"7", "2", "mainnet", "false"⟩ = .error (.mismatch k) :=
  C20.mismatch_fails _ _ (by decide)

end Brc20
