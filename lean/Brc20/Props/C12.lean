/-
C12 - Without credentials nobody can drive the indexer interface.
-/
import Brc20.Model.Auth
import Brc20.Gen.Methods

namespace Brc20
open Auth

/-- Without the exact expected header, an enabled configuration never marks the request. -/
theorem C12.wrong_header_unmarked (c : Cfg) (h : Option String) (he : c.enabled = true) (hh : h ≠ some c.expected) :
    marked c h = false := by
  unfold marked
  cases h with
  | none => simp [he]
  | some x =>
    have : x ≠ c.expected := fun e => hh (by rw [e])
    simp [he, this]

/-- **An unmarked request never reaches a protected method**: as a single call (401), as a notification (dropped),
or as any entry at any position of a batch (401), however the batch mixes it with permitted calls. -/
theorem C12.unauth_cannot_reach_protected (deny : List String) (method : String) (hd : method ∈ deny) :
    serveCall deny false method = .unauthorized ∧ serveNotification deny false method = .dropped ∧
    ∀ (pre post : List Entry) (e : Entry), (e = .call method ∨ e = .notification method) →
      (serveBatch deny false (pre ++ e :: post))[pre.length]? = some .unauthorized := by
  have hc : deny.contains method = true := by simpa using hd
  refine ⟨by simp [serveCall, allow, hd], by simp [serveNotification, allow, hd], ?_⟩
  intro pre post e he
  simp only [serveBatch, List.map_append, List.map_cons]
  rw [List.getElem?_append_right (by simp)]
  rcases he with rfl | rfl <;> simp [serveBatchEntry, allow, hd]

/-- No entry of an unauthorised batch that is forwarded names a protected method. -/
theorem C12.batch_forwards_only_public (deny : List String) (b : List Entry) (i : Nat) (method : String)
    (hi : b[i]? = some (.call method) ∨ b[i]? = some (.notification method))
    (hf : (serveBatch deny false b)[i]? = some .forwarded) : method ∉ deny := by
  intro hd
  have hc : deny.contains method = true := by simpa using hd
  simp only [serveBatch, List.getElem?_map] at hf
  rcases hi with h | h <;> simp [h, serveBatchEntry, allow, hd] at hf

/-- **Public methods keep working** without credentials, in every form. -/
theorem C12.public_always_forwarded (deny : List String) (m : Bool) (method : String) (hn : method ∉ deny) :
    serveCall deny m method = .forwarded ∧ serveNotification deny m method = .forwarded ∧
    serveBatchEntry deny m (.call method) = .forwarded := by
  have hc : deny.contains method = false := by simpa using hn
  simp [serveCall, serveNotification, serveBatchEntry, allow, hn]

/-- **With the correct credentials (or with authentication off) every method works.** -/
theorem C12.authorised_all_forwarded (c : Cfg) (deny : List String) (method : String)
    (h : c.enabled = false ∨ True) :
    serveCall deny (marked c (some c.expected)) method = .forwarded ∧
    (c.enabled = false → ∀ hdr, serveCall deny (marked c hdr) method = .forwarded) := by
  constructor
  · simp [serveCall, allow, marked]
  · intro he hdr; simp [serveCall, allow, marked, he]

/-! ### The tie to the source: regenerated method tables -/

/-- **Every method that can mutate state is on the protected list** (handlers that reach `mine_blocks`,
`add_tx_to_block`, `add_raw_tx_to_block`, `initialise`, `finalise_block`, `reorg`, `commit_to_db`, `clear_caches`,
extracted from the source on every run). -/
theorem C12.deny_complete : Gen.mutating.all (fun m => Gen.denyList.contains m) = true := by decide

/-- Everything on the protected list is a registered method (no typo protects nothing). -/
theorem C12.deny_registered : Gen.denyList.all (fun m => Gen.registered.contains m) = true := by decide

/-- The method table of the running module is the one read from the source (a method registered by other means
would show up here). -/
theorem C12.registered_is_running :
    (match Gen.running with
     | some r => r.all (fun m => Gen.registered.contains m) && Gen.registered.all (fun m => r.contains m)
     | none => true) = true := by
  decide

/-- The set of state-changing methods is the one the engine model knows (a new mutating RPC fails here until it is
modelled). -/
theorem C12.mutating_known : Gen.mutating = ["brc20_mine", "brc20_deploy", "brc20_call", "brc20_transact",
    "brc20_deposit", "brc20_withdraw", "brc20_initialise", "brc20_finaliseBlock", "brc20_reorg",
    "brc20_commitToDatabase", "brc20_clearCaches"] := by decide

/-! Non-vacuity -/
example : serveBatch ["brc20_mine"] false [.call "eth_blockNumber", .call "brc20_mine", .malformed]
    = [.forwarded, .unauthorized, .forwarded] := by decide

end Brc20
