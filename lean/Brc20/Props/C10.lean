/-
C10 - Read-only methods never change state.

In the model a read request is a line of kind `read`: the driver returns the node it was given and refuses
(`model-reject`) any recorded table write, persistent write, committing EVM run or entry into `DatabaseCommit`.
The substance of the property on the real code is carried by (a) that event check, (b) the state digest before and
after every read, (c) the twin instance that never sees the reads (suite E).
-/
import Brc20.Model.DriverE

namespace Brc20
open Node

/-- **A read request never changes the node**, whatever it executed and whatever events were recorded with it. -/
theorem C10.read_is_identity (n : Node) (raw : List String) (evs : List Ev) : (DriverE.readStep n raw evs).1 = n := rfl

/-- It is answered `ok` only if nothing was written: no table write, no persistent write, no committing run, no
entry into `DatabaseCommit` among the recorded events. -/
theorem C10.read_ok_means_no_write (n : Node) (raw : List String) (evs : List Ev)
    (h : (DriverE.readStep n raw evs).2 = .ok) :
    ∀ e ∈ raw, ¬ (e.startsWith "S " || e.startsWith "W " || e.startsWith "X dbcommit" || e.startsWith "X tx ") = true := by
  intro e he hbad
  unfold DriverE.readStep at h
  have : (raw.any fun e => e.startsWith "S " || e.startsWith "W " || e.startsWith "X dbcommit" || e.startsWith "X tx ") = true :=
    List.any_eq_true.mpr ⟨e, he, hbad⟩
  simp [this] at h

/-- Hence reads can be removed from (or inserted into) any history: folding any number of read steps over a node
gives the node back, so every later indexer call, commit included, sees the same node. -/
theorem C10.reads_removable (n : Node) (reads : List (List String × List Ev)) :
    reads.foldl (fun m r => (DriverE.readStep m r.1 r.2).1) n = n := by
  induction reads with
  | nil => rfl
  | cons r rs ih => simpa [List.foldl, C10.read_is_identity] using ih

/-! ### Whole histories

The statements above are about one read step.  The property speaks about histories: "a history with arbitrary read
requests interleaved produces exactly the same results, and the same database contents after commit, as the history
without them".  `DriverE.step` is the model's transition function on protocol lines (the function the compiled
driver folds over its input, and the one whose answers are compared with the real engine line by line). -/

/-- the operation word of a protocol line, as `DriverE.step` reads it -/
def DriverE.opOf (line : String) : String :=
  ((((line.splitOn " ## ").headD "").trimAscii.toString.splitOn " ").filter (· ≠ "")).headD ""

def DriverE.isRead (line : String) : Bool := DriverE.opOf line == "read" || DriverE.opOf line == "logsq"

/-- run a history: final node and the answers, in order -/
def DriverE.run : Node → List String → Node × List String
  | n, [] => (n, [])
  | n, l :: ls =>
    let r := DriverE.step n l
    let rest := DriverE.run r.1 ls
    (rest.1, r.2 :: rest.2)

/-- a read line (any `read` kind, any recorded events, or a log query) leaves the node as it was -/
theorem C10.step_read_node (n : Node) (line : String) (h : DriverE.isRead line = true) :
    (DriverE.step n line).1 = n := by
  unfold DriverE.isRead DriverE.opOf at h
  simp only [Bool.or_eq_true, beq_iff_eq] at h
  show (DriverE.stepCore n line).1 = n
  unfold DriverE.stepCore
  rcases h with h | h <;> simp only [h] <;> rfl

/-- answers of the non-read lines of a history, in order -/
def DriverE.writeAnswers : Node → List String → List String
  | _, [] => []
  | n, l :: ls =>
    let r := DriverE.step n l
    if DriverE.isRead l then DriverE.writeAnswers r.1 ls else r.2 :: DriverE.writeAnswers r.1 ls

/-- **Reads can be interleaved anywhere in any history**: the history with every read line removed ends in the same
node (hence the same database contents after a commit, and the same digest) and gives every indexer call the same
answer as the history with the reads in place. -/
theorem C10.history_reads_removable (lines : List String) :
    ∀ n : Node,
      (DriverE.run n (lines.filter (fun l => !DriverE.isRead l))).1 = (DriverE.run n lines).1 ∧
      (DriverE.run n (lines.filter (fun l => !DriverE.isRead l))).2 = DriverE.writeAnswers n lines := by
  induction lines with
  | nil => intro n; exact ⟨rfl, rfl⟩
  | cons l ls ih =>
    intro n
    by_cases hr : DriverE.isRead l = true
    · have hn := C10.step_read_node n l hr
      simp only [List.filter_cons, hr, Bool.not_true, Bool.false_eq_true, if_false, DriverE.run, DriverE.writeAnswers, if_true, hn]
      exact ih n
    · have hr' : DriverE.isRead l = false := by simpa using hr
      simp only [List.filter_cons, hr', Bool.not_false, if_true, DriverE.run, DriverE.writeAnswers, Bool.false_eq_true, if_false]
      have := ih (DriverE.step n l).1
      exact ⟨this.1, by rw [this.2]⟩

/-- and the answers of the write lines are the answers they get in the full history (same positions) -/
theorem C10.writeAnswers_eq_filter (lines : List String) :
    ∀ n : Node, DriverE.writeAnswers n lines =
      ((lines.zip (DriverE.run n lines).2).filter (fun p => !DriverE.isRead p.1)).map (·.2) := by
  induction lines with
  | nil => intro n; rfl
  | cons l ls ih =>
    intro n
    by_cases hr : DriverE.isRead l = true
    · simp only [DriverE.writeAnswers, hr, if_true, DriverE.run, List.zip_cons_cons, List.filter_cons, Bool.not_true,
        Bool.false_eq_true, if_false]
      exact ih _
    · have hr' : DriverE.isRead l = false := by simpa using hr
      simp only [DriverE.writeAnswers, hr', Bool.false_eq_true, if_false, DriverE.run, List.zip_cons_cons, List.filter_cons,
        Bool.not_false, if_true, List.map_cons]
      rw [ih]

-- non-vacuity (evaluated, a test: string functions do not reduce in the kernel): a read line with recorded events
-- is a read; an indexer call is not
#guard DriverE.isRead "read kind=callmany ncalls=2 ## X simmulti caller=aa nonce=0 | ok success=true" = true
#guard DriverE.isRead "logsq latest=3 from=1 to=2 addr=- topics=none all=-" = true
#guard DriverE.isRead "fin ts=1 hash=0x00 count=0" = false

end Brc20
