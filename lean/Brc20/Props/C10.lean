/-
C10 - Read-only methods never change state.

In the model a read request is a line of kind `read`: the driver returns the node it was given and refuses
(`model-reject`) any recorded table write, persistent write, committing EVM run or entry into `DatabaseCommit`.
The substance of the property on the real code is carried by (a) that event check, (b) the state digest before and
after every read, (c) the twin instance that never sees the reads (suite E).
-/
import Brc20.Model.DriverE

namespace Brc20
open Node

/-- **A read request never changes the node**, whatever it executed and whatever events were recorded with it. -/
theorem C10.read_is_identity (n : Node) (raw : List String) (evs : List Ev) : (DriverE.readStep n raw evs).1 = n := rfl

/-- It is answered `ok` only if nothing was written: no table write, no persistent write, no committing run, no
entry into `DatabaseCommit` among the recorded events. -/
theorem C10.read_ok_means_no_write (n : Node) (raw : List String) (evs : List Ev)
    (h : (DriverE.readStep n raw evs).2 = .ok) :
    ∀ e ∈ raw, ¬ (e.startsWith "S " || e.startsWith "W " || e.startsWith "X dbcommit" || e.startsWith "X tx ") = true := by
  intro e he hbad
  unfold DriverE.readStep at h
  have : (raw.any fun e => e.startsWith "S " || e.startsWith "W " || e.startsWith "X dbcommit" || e.startsWith "X tx ") = true :=
    List.any_eq_true.mpr ⟨e, he, hbad⟩
  simp [this] at h

/-- Hence reads can be removed from (or inserted into) any history: folding any number of read steps over a node
gives the node back, so every later indexer call, commit included, sees the same node. -/
theorem C10.reads_removable (n : Node) (reads : List (List String × List Ev)) :
    reads.foldl (fun m r => (DriverE.readStep m r.1 r.2).1) n = n := by
  induction reads with
  | nil => rfl
  | cons r rs ih => simpa [List.foldl, C10.read_is_identity] using ih

end Brc20
