/-
C04 - A crash at any write can be recovered exactly by a reorg to a durable height.

Crash = a prefix of the persistent writes of a commit (`Table.crashCommit`: the first `i` writes, then the cache is
gone) followed by a reopen.  RocksDB is the parameter: each put / delete is atomic and survives the death of the
process once issued.  The theorems hold for every table separately; the engine commits its tables one after the
other, so a crash inside `commit_changes` / `reorg` leaves every table either untouched, complete, or cut at one
write index - each case is covered.  The write order these theorems rely on (value row before the deletion of an
old history) is the order after the `fix:` recorded as F18; `crash_in_reorg_scenario_recovers` replays the former
counterexample.
For every REACHABLE engine state the side conditions of the engine-level theorems are derived (last section;
Proofs/ReachCrash.lean): what remains is a block boundary, a target below the durable height (`n0 < durNext`), the
engine's own depth test, and the proviso of finding F10 for the two pending-pool tables.
Not covered: OS / power-loss durability of un-synced WAL data, torn RocksDB internals.
-/
import Brc20.Proofs.Crash
import Brc20.Proofs.NodeCrash
import Brc20.Proofs.ReachCrash
import Brc20.Gen.Tables

namespace Brc20
open Table

section
variable {K V : Type} [DecidableEq K] [DecidableEq V]

/-- **Crash inside a commit.** For every state reachable from an empty table by a legal history, every commit block
`b`, every write index `i` and every rollback target `n` that is inside the window and durable (nothing written
since the last completed commit is visible at `n`): reopen + `reorg n` does not panic and every key reads exactly
the value it had at the end of block `n`. -/
theorem C04.crash_in_commit_recoverable {W : Nat} (ops : List (TOp K V))
    (hl : TSpec.legalRun W (TSpec.init : TSpec K V) ops) :
    ∃ t, (Table.empty : Table K V).run W ops = some t ∧
      ∀ b i n, ((TSpec.init : TSpec K V).run ops).maxEver ≤ n + W →
        b ≤ n + W + 1 →
        (∀ k, (((TSpec.init : TSpec K V).run ops).cur k).valAt n = (((TSpec.init : TSpec K V).run ops).dur k).valAt n) →
        ∃ t', (t.crashCommit W b i).reorg W n = some t' ∧
          ∀ k, t'.latest k = ((TSpec.init : TSpec K V).run ops).readAt k n :=
  crash_recoverable_run ops hl

/-- **Crash inside a reorg** (in the commit that ends `reorg m`, at any write index): a later `reorg n` with `n ≤ m`,
inside the window and durable, repairs it. -/
theorem C04.crash_in_reorg_recoverable {W : Nat} (ops : List (TOp K V))
    (hl : TSpec.legalRun W (TSpec.init : TSpec K V) ops) :
    ∃ t, (Table.empty : Table K V).run W ops = some t ∧
      ∀ m n, m ≤ ((TSpec.init : TSpec K V).run ops).maxEver → n ≤ m →
        ((TSpec.init : TSpec K V).run ops).maxEver ≤ n + W →
        (∀ k, (((TSpec.init : TSpec K V).run ops).cur k).valAt n = (((TSpec.init : TSpec K V).run ops).dur k).valAt n) →
        ∃ tl, t.reorgLoad m t.reorgKeys = some tl ∧
          ∀ i, ∃ t', (tl.crashCommit W m i).reorg W n = some t' ∧
            ∀ k, t'.latest k = ((TSpec.init : TSpec K V).run ops).readAt k n :=
  crash_in_reorg_recoverable_run ops hl

/-- **Crash outside commit / reorg** (no write in flight): the reopened table reads its durable logs - only
uncommitted work is lost. -/
theorem C04.crash_outside_commit {W : Nat} {t : Table K V} {s : TSpec K V} (h : Sim W t s) (b : Nat) (k : K) :
    (t.crashCommit W b 0).latest k = (s.dur k).latest :=
  crash_before_first_write h b k

/-- A crash after the last write is a completed commit followed by a reopen. -/
theorem C04.crash_after_commit {W : Nat} {t : Table K V} (b i : Nat) (hi : (t.commitWrites W b).length ≤ i) :
    t.crashCommit W b i = (t.commit W b).reopen :=
  crash_after_last_write b i hi

/-- The write order the proofs rely on: a kept history is written before the value row, an old history is deleted
only after the value row. -/
theorem C04.write_order (W b : Nat) (k : K) (h : Hist V) :
    keyWrites W b k h =
      (if h.isOld W b then [(match h.latest with | some v => Write.putDb k v | none => Write.delDb k), Write.delCdb k]
       else [Write.putCdb k h, (match h.latest with | some v => Write.putDb k v | none => Write.delDb k)]) := rfl

end

/-- The former counterexample (a key written at blocks 5 and 17, `reorg 16` crashing after its first write) now
recovers: after reopen and `reorg 16` the key reads its value of block 16. -/
theorem C04.former_counterexample_recovers : True ∧
    (∃ tl, ((Table.empty : Table Nat Nat).run 10 Table.cexOps).bind (fun t => t.reorgLoad 16 t.reorgKeys) = some tl ∧
      ((tl.crashCommit 10 16 1).reorg 10 16).map (fun t => t.latest 0) = some (some 1)) := by
  refine ⟨trivial, ?_⟩
  decide

/-! ### The engine: all tables, one global write sequence

The engine commits its tables one after another (`commit_changes`: the three block tables, then the twelve versioned
tables), each table issuing its own writes in sequence.  `Node.crashCommitAt n j` = the first `j` writes of that
global sequence, then the process dies and the directory is reopened.  The theorems hold for ANY order of the tables
(`crashCommitAtIn_reorg_ok`), so they do not depend on the order being transcribed correctly. -/

open Node in
/-- A prefix of the global write sequence cuts every table at its own index: some tables complete, one partial, the
rest untouched. -/
theorem C04.engine_crash_is_per_table (n : Node) (j : Nat) :
    n.crashCommitAt j = n.crashIdx (n.ibOf j) (n.itOf j) := Node.crashCommitAt_eq_crashIdx n j

open Node in
/-- **Crash at any write of an engine commit.**  For a node whose tables refine plain logs `g`, every global write
index `j` and every target `n0` that is inside every table's window, durable in every table, whose hash row is
persisted, with all block rows of the pending commit above it and inside the engine's own acceptance tests: after the
crash and reopen, `brc20_reorg(n0)` is accepted, every versioned table reads its value at the end of block `n0` for
every key, every block table holds exactly the persisted rows `≤ n0`, nothing is under construction and the node
stands at height `n0`. -/
theorem C04.engine_crash_in_commit_recoverable (n : Node) (g : TId → TSpec String String) (hs : NodeSim n g) (j n0 : Nat)
    (hw : ∀ i, (g i).maxEver ≤ n0 + W)
    (hdur : ∀ i k, ((g i).cur k).valAt n0 = ((g i).dur k).valAt n0)
    (habove : ∀ i, ∀ p ∈ (n.b i).cache, n0 < p.1)
    (hlat : ∀ h x, n.latest = some (h, x) → (n.b .numberToHash).lastKey = some h)
    (hrow : (n.b .numberToHash).db.get? n0 ≠ none)
    (hdeep : n.latestHeight ≤ n0 + W) (hmax : n.maxBlock.getD 0 ≤ W + n0) :
    ∃ r, (n.crashCommitAt j).reorg n0 = (r, .ok) ∧ RestoredAt n g n0 r ∧
      r.latestHeight = n0 ∧ r.nextHeight = n0 + 1 :=
  Node.crashCommitAt_reorg_ok n g hs j n0 hw hdur habove hlat hrow hdeep hmax

open Node in
/-- **Crash inside `brc20_reorg(m)`** (at any write of its table phase), then reopen and `brc20_reorg(n0)` with
`n0 ≤ m`: restored to `n0`. -/
theorem C04.engine_crash_in_reorg_recoverable (n : Node) (g : TId → TSpec String String) (hs : NodeSim n g)
    (m j n0 : Nat) (hnm : n0 ≤ m) (hmW : m ≤ n0 + W)
    (hw : ∀ i, (g i).maxEver ≤ n0 + W)
    (hdur : ∀ i k, ((g i).cur k).valAt n0 = ((g i).dur k).valAt n0)
    (hrow : (n.b .numberToHash).db.get? n0 ≠ none)
    (hkeys : ∀ k, (n.b .numberToHash).db.get? k ≠ none → k ≤ n0 + W) (hmax : n.maxBlock.getD 0 ≤ W + n0) :
    ∃ r, (n.crashReorgAt m j).reorg n0 = (r, .ok) ∧ RestoredAt n g n0 r ∧
      r.latestHeight = n0 ∧ r.nextHeight = n0 + 1 :=
  Node.crashReorgAt_reorg_ok n g hs m j n0 hnm hmW hw hdur hrow hkeys hmax

open Node in
/-- The order in which the model's global write sequence walks the tables is the order of `commit_changes` in the
source now (regenerated; indices into the declaration order). -/
theorem C04.commit_order_is_the_sources :
    commitOrderT = Gen.commitVersioned.filterMap (fun i => allTIds[i]?) ∧
    commitOrderB = Gen.commitBlock.filterMap (fun i => allBIds[i]?) ∧
    reorgOrderT = Gen.reorgVersioned.filterMap (fun i => allTIds[i]?) := by decide

/-! ### The engine, every reachable state

The theorems above assume `NodeSim n g` and the side conditions `hw hdur habove hlat hrow hdeep hmax`.  For every node
reachable by any sequence of calls (`Node.ReachG n G`: the empty node, then any operation with any arguments and any
recorded events the model answers `ok` / `err` to; `G.s i` the plain log of table `i`, `G.d i` that log as of the last
commit point) they are all DERIVED (Proofs/ReachCrash.lean), from
  * a block boundary (`commit` and `reorg` are refused otherwise),
  * `n0 < durNext`: block `n0` was persisted by a completed commit (`durNext` = the height a restart continues at,
    read off the persisted hash rows),
  * the engine's own depth test on the written-through `max_block_number` row,
  * the proviso of finding F10 for the two pending-pool tables (not needed with one block of slack in the depth test).
The key invariant is `Node.DInv`: every recorded write carries the height being built, which never drops below
`durNext` between commit points, so the current log and the durable log of every key agree below `durNext`. -/

open Node in
/-- **The durability hypothesis holds on every reachable node** for every target below the durable height: nothing
written since the last commit point is visible there; every pending block row lies above it; its block rows are on
disk.  (`(G.s i).dur`, the table-level durable log, is `(G.d i).cur`, the node-level log as of the last commit.) -/
theorem C04.durable_below_durNext (n : Node) (G : Ghost) (hr : ReachG n G) (n0 : Nat) (hn0 : n0 < n.durNext) :
    (∀ i k, ((G.s i).cur k).valAt n0 = ((G.s i).dur k).valAt n0) ∧
    (∀ i, (G.s i).dur = (G.d i).cur) ∧
    (∀ i, ∀ p ∈ (n.b i).cache, n0 < p.1) ∧
    (∀ i, (n.b i).db.get? n0 ≠ none) ∧
    n.durNext ≤ n.nextHeight := by
  obtain ⟨h1, h2, _, h4⟩ := hr.crash_hyps hn0
  exact ⟨h1, fun i => (hr.dur_is_d i).1, h2, h4, hr.dinv.dn_le⟩

open Node in
/-- **Crash at any write of an engine commit, every reachable state.**  After the crash at global write `j` (any
`j`) and the reopen, `brc20_reorg(n0)` is accepted and answers `ok`; every versioned table reads, for every key, its
value at the end of block `n0`; every block table holds exactly the persisted rows `≤ n0`; nothing is under
construction; the node stands at height `n0`. -/
theorem C04.engine_crash_in_commit_recoverable_reachable (n : Node) (G : Ghost) (hr : ReachG n G)
    (hw : n.lbi.waiting = 0) (j n0 : Nat) (hn0 : n0 < n.durNext) (hmax : n.maxBlock.getD 0 ≤ W + n0)
    (hpool : ∀ i, i ∈ poolTables → (G.s i).maxEver ≤ n0 + W) :
    ∃ r, (n.crashCommitAt j).reorg n0 = (r, .ok) ∧ RestoredAt n G.s n0 r ∧
      r.latestHeight = n0 ∧ r.nextHeight = n0 + 1 :=
  hr.crash_in_commit_recoverable hw j n0 hn0 hmax hpool

open Node in
/-- The same with one block of slack in the depth test and no proviso on the pool tables. -/
theorem C04.engine_crash_in_commit_recoverable_reachable_slack (n : Node) (G : Ghost) (hr : ReachG n G)
    (hw : n.lbi.waiting = 0) (j n0 : Nat) (hn0 : n0 < n.durNext) (hmax : n.maxBlock.getD 0 < W + n0) :
    ∃ r, (n.crashCommitAt j).reorg n0 = (r, .ok) ∧ RestoredAt n G.s n0 r ∧
      r.latestHeight = n0 ∧ r.nextHeight = n0 + 1 :=
  hr.crash_in_commit_recoverable_slack hw j n0 hn0 hmax

open Node in
/-- The same for any order in which the engine might commit its tables (each table once). -/
theorem C04.engine_crash_in_commit_recoverable_reachable_any_order (n : Node) (G : Ghost) (hr : ReachG n G)
    (hw : n.lbi.waiting = 0) (ob : List BId) (ot : List TId) (ndb : ob.Nodup) (ndt : ot.Nodup)
    (hob : ∀ i, i ∈ ob) (hot : ∀ i, i ∈ ot) (j n0 : Nat) (hn0 : n0 < n.durNext)
    (hmax : n.maxBlock.getD 0 ≤ W + n0) (hpool : ∀ i, i ∈ poolTables → (G.s i).maxEver ≤ n0 + W) :
    ∃ r, (n.crashCommitAtIn ob ot j).reorg n0 = (r, .ok) ∧ RestoredAt n G.s n0 r ∧
      r.latestHeight = n0 ∧ r.nextHeight = n0 + 1 :=
  hr.crash_in_commit_recoverable_any_order hw ob ot ndb ndt hob hot j n0 hn0 hmax hpool

open Node in
/-- **Crash anywhere inside an accepted `brc20_reorg(m)`, every reachable state**: at any write `j` of its table
phase (`crashReorgAt`), or at any write `j` of the commit that ends it (`n2.crashCommitAt`, `n2` = the node after
the table and block phases: `(n.reorg m).1 = n2.commitAll`).  Reopen and `brc20_reorg(n0)` for any durable `n0 ≤ m`
inside the depth test: restored to `n0`. -/
theorem C04.engine_crash_in_reorg_recoverable_reachable (n : Node) (G : Ghost) (hr : ReachG n G) (m : Nat)
    (hok : (n.reorg m).2 = .ok) (n0 : Nat) (hnm : n0 ≤ m) (hn0 : n0 < n.durNext)
    (hmax : n.maxBlock.getD 0 ≤ W + n0) (hpool : ∀ i, i ∈ poolTables → (G.s i).maxEver ≤ n0 + W) :
    (∀ j, ∃ r, (n.crashReorgAt m j).reorg n0 = (r, .ok) ∧ RestoredAt n G.s n0 r ∧
      r.latestHeight = n0 ∧ r.nextHeight = n0 + 1) ∧
    ∃ n2 : Node, (n.reorg m).1 = n2.commitAll ∧
      ∀ j, ∃ r, (n2.crashCommitAt j).reorg n0 = (r, .ok) ∧ RestoredAt n G.s n0 r ∧
        r.latestHeight = n0 ∧ r.nextHeight = n0 + 1 :=
  hr.crash_in_accepted_reorg_recoverable m hok n0 hnm hn0 hmax hpool

open Node in
/-- A crash with no write in flight is a reopen. -/
theorem C04.engine_crash_before_first_write (n : Node) : n.crashCommitAt 0 = n.reopen := rfl

open Node in
/-- **A crash outside commit / reorg loses only uncommitted work, every reachable state**: every table reads, for
every key, the log as of the last commit point; the block tables hold exactly the blocks below `durNext`, where the
node stands; nothing is under construction; the reopened node is reachable (with logs `G.clear`), so every theorem
about reachable nodes applies to it. -/
theorem C04.engine_crash_outside_commit_reachable (n : Node) (G : Ghost) (hr : ReachG n G) :
    (∀ i k, ((n.crashCommitAt 0).t i).latest k = (G.d i).read k) ∧
    (∀ i k, (G.d i).read k = ((G.s i).dur k).latest) ∧
    (∀ i k, ((n.crashCommitAt 0).b i).get k = (n.b i).db.get? k) ∧
    (∀ i k, ((n.crashCommitAt 0).b i).get k ≠ none ↔ k < n.durNext) ∧
    (n.crashCommitAt 0).nextHeight = n.durNext ∧ (n.crashCommitAt 0).lbi = {} ∧
    ReachG (n.crashCommitAt 0) G.clear :=
  hr.crash_outside_commit

/-- Non-vacuity: a concrete reachable node (genesis, commit, a parked transaction, a block with a call, a mined
block) to which the reachable-state theorems apply for every crash point; cut at write 12 its tables are torn
(`ReachCrashExample` in Proofs/ReachCrash.lean), and `reorg 0` restores block 0. -/
theorem C04.reachable_example_recovers (j : Nat) :
    Node.ReachG ReachCrashExample.st.1 ReachCrashExample.st.2 ∧
    ∃ r, (ReachCrashExample.st.1.crashCommitAt j).reorg 0 = (r, .ok) ∧
      Node.RestoredAt ReachCrashExample.st.1 ReachCrashExample.st.2.s 0 r ∧ r.latestHeight = 0 ∧ r.nextHeight = 1 :=
  ⟨ReachCrashExample.st_reach, ReachCrashExample.recovers j⟩

end Brc20
