/-
C04 - A crash at any write can be recovered exactly by a reorg to a durable height.

Crash = a prefix of the persistent writes of a commit (`Table.crashCommit`: the first `i` writes, then the cache is
gone) followed by a reopen.  RocksDB is the parameter: each put / delete is atomic and survives the death of the
process once issued.  The theorems hold for every table separately; the engine commits its tables one after the
other, so a crash inside `commit_changes` / `reorg` leaves every table either untouched, complete, or cut at one
write index - each case is covered.  The write order these theorems rely on (value row before the deletion of an
old history) is the order after the `fix:` recorded as F18; `crash_in_reorg_scenario_recovers` replays the former
counterexample.
Not covered: OS / power-loss durability of un-synced WAL data, torn RocksDB internals.
-/
import Brc20.Proofs.Crash

namespace Brc20
open Table

section
variable {K V : Type} [DecidableEq K] [DecidableEq V]

/-- **Crash inside a commit.** For every state reachable from an empty table by a legal history, every commit block
`b`, every write index `i` and every rollback target `n` that is inside the window and durable (nothing written
since the last completed commit is visible at `n`): reopen + `reorg n` does not panic and every key reads exactly
the value it had at the end of block `n`. -/
theorem C04.crash_in_commit_recoverable {W : Nat} (ops : List (TOp K V))
    (hl : TSpec.legalRun W (TSpec.init : TSpec K V) ops) :
    ∃ t, (Table.empty : Table K V).run W ops = some t ∧
      ∀ b i n, ((TSpec.init : TSpec K V).run ops).maxEver ≤ n + W →
        b ≤ n + W + 1 →
        (∀ k, (((TSpec.init : TSpec K V).run ops).cur k).valAt n = (((TSpec.init : TSpec K V).run ops).dur k).valAt n) →
        ∃ t', (t.crashCommit W b i).reorg W n = some t' ∧
          ∀ k, t'.latest k = ((TSpec.init : TSpec K V).run ops).readAt k n :=
  crash_recoverable_run ops hl

/-- **Crash inside a reorg** (in the commit that ends `reorg m`, at any write index): a later `reorg n` with `n ≤ m`,
inside the window and durable, repairs it. -/
theorem C04.crash_in_reorg_recoverable {W : Nat} (ops : List (TOp K V))
    (hl : TSpec.legalRun W (TSpec.init : TSpec K V) ops) :
    ∃ t, (Table.empty : Table K V).run W ops = some t ∧
      ∀ m n, m ≤ ((TSpec.init : TSpec K V).run ops).maxEver → n ≤ m →
        ((TSpec.init : TSpec K V).run ops).maxEver ≤ n + W →
        (∀ k, (((TSpec.init : TSpec K V).run ops).cur k).valAt n = (((TSpec.init : TSpec K V).run ops).dur k).valAt n) →
        ∃ tl, t.reorgLoad m t.reorgKeys = some tl ∧
          ∀ i, ∃ t', (tl.crashCommit W m i).reorg W n = some t' ∧
            ∀ k, t'.latest k = ((TSpec.init : TSpec K V).run ops).readAt k n :=
  crash_in_reorg_recoverable_run ops hl

/-- **Crash outside commit / reorg** (no write in flight): the reopened table reads its durable logs - only
uncommitted work is lost. -/
theorem C04.crash_outside_commit {W : Nat} {t : Table K V} {s : TSpec K V} (h : Sim W t s) (b : Nat) (k : K) :
    (t.crashCommit W b 0).latest k = (s.dur k).latest :=
  crash_before_first_write h b k

/-- A crash after the last write is a completed commit followed by a reopen. -/
theorem C04.crash_after_commit {W : Nat} {t : Table K V} (b i : Nat) (hi : (t.commitWrites W b).length ≤ i) :
    t.crashCommit W b i = (t.commit W b).reopen :=
  crash_after_last_write b i hi

/-- The write order the proofs rely on: a kept history is written before the value row, an old history is deleted
only after the value row. -/
theorem C04.write_order (W b : Nat) (k : K) (h : Hist V) :
    keyWrites W b k h =
      (if h.isOld W b then [(match h.latest with | some v => Write.putDb k v | none => Write.delDb k), Write.delCdb k]
       else [Write.putCdb k h, (match h.latest with | some v => Write.putDb k v | none => Write.delDb k)]) := rfl

end

/-- The former counterexample (a key written at blocks 5 and 17, `reorg 16` crashing after its first write) now
recovers: after reopen and `reorg 16` the key reads its value of block 16. -/
theorem C04.former_counterexample_recovers : True ∧
    (∃ tl, ((Table.empty : Table Nat Nat).run 10 Table.cexOps).bind (fun t => t.reorgLoad 16 t.reorgKeys) = some tl ∧
      ((tl.crashCommit 10 16 1).reorg 10 16).map (fun t => t.latest 0) = some (some 1)) := by
  refine ⟨trivial, ?_⟩
  decide

end Brc20
