/-
eth_getLogs: model of `Brc20ProgDatabase::get_logs` (src/db/brc20_prog_database.rs): the range rule in u64
arithmetic, the positional topic filter, the address filter, the order of the result.
-/
namespace Brc20.Logs

structure Log where
  address : String
  topics : List String
  deriving DecidableEq, Repr

/-- one filter position: `null`, a single topic, or a list of alternatives (`null` inside a list never matches) -/
inductive Pos where
  | any
  | one (t : String)
  | alts (ts : List (Option String))
  deriving Repr

/-- positions are checked left to right; a position beyond the log's topics fails unless it is a wildcard -/
def matchTopics (lt : List String) : List Pos → Nat → Bool
  | [], _ => true
  | .any :: rest, i => matchTopics lt rest (i + 1)
  | .one t :: rest, i => (match lt[i]? with | some x => x == t | none => false) && matchTopics lt rest (i + 1)
  | .alts ts :: rest, i =>
    (match lt[i]? with | some x => ts.any (fun o => o == some x) | none => false) && matchTopics lt rest (i + 1)

def logMatches (addr : Option String) (topics : Option (List Pos)) (l : Log) : Bool :=
  (match addr with | some a => l.address == a | none => true) &&
  (match topics with | some ps => matchTopics l.topics ps 0 | none => true)

def U64 : Nat := 2 ^ 64

/-- `block_number_to - block_number_from > 5` in wrapping u64 arithmetic (release build): a reversed range wraps
to a huge number and is refused -/
def rangeRefused (from_ to : Nat) : Bool := decide ((to + U64 - from_) % U64 > 5)

/-- defaults: `from` = latest, `to` = `from` -/
def resolveRange (latest : Nat) (from_ to : Option Nat) : Nat × Nat :=
  let f := from_.getD latest
  (f, to.getD f)

/-- the result: logs of the receipts in range, in chain order (block, transaction index, log index), filtered -/
def getLogs (latest : Nat) (from_ to : Option Nat) (addr : Option String) (topics : Option (List Pos))
    (logsInRange : Nat → Nat → List Log) : Option (List Log) :=
  let (f, t) := resolveRange latest from_ to
  if rangeRefused f t then none else some ((logsInRange f t).filter (logMatches addr topics))

end Brc20.Logs
