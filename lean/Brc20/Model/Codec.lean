/-
Storage codec: model of `Encode`/`Decode` (src/db/types/encode_decode.rs and the `*_ed.rs` impls).

A type description `Ty` is interpreted both as a Lean type (`Ty.denote`) and as an encoder/decoder pair.
Records are right-nested pairs ending in `unit`; their field lists are regenerated from the Rust source
(`Gen/Codecs.lean`) and compared with the lists used here by kernel-checked `decide`.

  u8 / u32 / u64        big-endian fixed width                       (encode_decode.rs)
  uint n                `UintED`: n u64 limbs, most significant first (uint_ed.rs)
  fixed n               `[u8; n]`, `FixedBytesED<n>`, `AddressED` (n = 20)
  bytes                 `Vec<u8>` / `String` / `BytesED` / `BytecodeED`: u32 length prefix + payload
  opt t                 one tag byte (1 = present, anything else = absent), then the value
  vec t                 u32 count, then the items
  pair a b              concatenation

-/
namespace Brc20

abbrev Bytes := List UInt8

inductive Ty where
  | u8 | u32 | u64
  | uint (limbs : Nat)
  | fixed (n : Nat)
  | bytes
  | opt (t : Ty)
  | vec (t : Ty)
  | pair (a b : Ty)
  | unit
  deriving Repr, DecidableEq

namespace Ty

/-- Lean type of the values of a description. Numbers are `Nat` (range is a well-formedness condition). -/
@[reducible] def denote : Ty → Type
  | u8 | u32 | u64 => Nat
  | uint _ => Nat
  | fixed _ => Bytes
  | bytes => Bytes
  | opt t => Option t.denote
  | vec t => List t.denote
  | pair a b => a.denote × b.denote
  | unit => Unit

end Ty

/-- `w` big-endian bytes of `n` (the low `8*w` bits). -/
def beBytes : Nat → Nat → Bytes
  | 0, _ => []
  | w + 1, n => UInt8.ofNat (n / 256 ^ w % 256) :: beBytes w (n % 256 ^ w)

/-- Big-endian value of a byte string. -/
def beVal : Bytes → Nat
  | [] => 0
  | b :: rest => b.toNat * 256 ^ rest.length + beVal rest

/-- Split off the first `n` bytes; `none` if there are fewer (the Rust indexes out of bounds and panics,
or returns `Err` - either way nothing is decoded). -/
def takeN (n : Nat) (bs : Bytes) : Option (Bytes × Bytes) :=
  if n ≤ bs.length then some (bs.take n, bs.drop n) else none

/-- Decode `n` items with an item decoder. -/
def decodeMany {α : Type} (dec : Bytes → Option (α × Bytes)) : Nat → Bytes → Option (List α × Bytes)
  | 0, bs => some ([], bs)
  | n + 1, bs =>
    match dec bs with
    | none => none
    | some (x, rest) =>
      match decodeMany dec n rest with
      | none => none
      | some (xs, rest') => some (x :: xs, rest')

namespace Ty

def encode : (t : Ty) → t.denote → Bytes
  | u8, n => beBytes 1 n
  | u32, n => beBytes 4 n
  | u64, n => beBytes 8 n
  | uint l, n => beBytes (8 * l) n
  | fixed _, b => b
  | bytes, b => beBytes 4 (b : Bytes).length ++ (b : Bytes)
  | opt _, none => [0]
  | opt t, some x => 1 :: encode t x
  | vec t, xs => beBytes 4 (xs : List t.denote).length ++ ((xs : List t.denote).map (encode t)).flatten
  | pair a b, (x, y) => encode a x ++ encode b y
  | unit, _ => []

def decode : (t : Ty) → Bytes → Option (t.denote × Bytes)
  | u8, bs => (takeN 1 bs).map (fun p => (beVal p.1, p.2))
  | u32, bs => (takeN 4 bs).map (fun p => (beVal p.1, p.2))
  | u64, bs => (takeN 8 bs).map (fun p => (beVal p.1, p.2))
  | uint l, bs => (takeN (8 * l) bs).map (fun p => (beVal p.1, p.2))
  | fixed n, bs => takeN n bs
  | bytes, bs =>
    match takeN 4 bs with
    | none => none
    | some (l, rest) => takeN (beVal l) rest
  | opt t, bs =>
    match bs with
    | [] => none
    | tag :: rest =>
      if tag = 1 then
        match decode t rest with
        | none => none
        | some (x, rest') => some (some x, rest')
      else some (none, rest)
  | vec t, bs =>
    match takeN 4 bs with
    | none => none
    | some (l, rest) => decodeMany (decode t) (beVal l) rest
  | pair a b, bs =>
    match decode a bs with
    | none => none
    | some (x, rest) =>
      match decode b rest with
      | none => none
      | some (y, rest') => some ((x, y), rest')
  | unit, bs => some ((), bs)

/-- Well-formed values: numbers in range, fixed byte strings of the right length, lengths below 2^32
(the Rust casts `len as u32`). -/
def WF : (t : Ty) → t.denote → Prop
  | u8, n => (n : Nat) < 256
  | u32, n => (n : Nat) < 2 ^ 32
  | u64, n => (n : Nat) < 2 ^ 64
  | uint l, n => (n : Nat) < 256 ^ (8 * l)
  | fixed k, b => (b : Bytes).length = k
  | bytes, b => (b : Bytes).length < 2 ^ 32
  | opt _, none => True
  | opt t, some x => WF t x
  | vec t, xs => (xs : List t.denote).length < 2 ^ 32 ∧ ∀ x ∈ (xs : List t.denote), WF t x
  | pair a b, (x, y) => WF a x ∧ WF b y
  | unit, _ => True

/-- A record is a right-nested pair of its fields. -/
def record : List Ty → Ty
  | [] => unit
  | t :: ts => pair t (record ts)

end Ty

/-- Lexicographic order on byte strings (what RocksDB iterates in). -/
def bytesLt : Bytes → Bytes → Bool
  | [], [] => false
  | [], _ :: _ => true
  | _ :: _, [] => false
  | a :: as, b :: bs => if a < b then true else if b < a then false else bytesLt as bs

end Brc20
