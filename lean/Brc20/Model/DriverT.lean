/-
Line-protocol driver for the table suites (T: versioned table, H: a single history, B: block table).
One output line per input line.  Keys and values are lower-case hex of the encoded bytes, so `String <`
is the byte-lexicographic order RocksDB uses.
-/
import Brc20.Model.Table
import Brc20.Model.BlockDb

namespace Brc20.DriverT

def W : Nat := 10   -- checked against Gen/Constants by Props (the driver itself imports only the model)

abbrev T := Table String String

def slt (a b : String) : Bool := decide (a < b)

def showOpt : Option String → String
  | some v => v
  | none => "-"

def showHist (h : Hist String) : String :=
  "|".intercalate (h.map (fun e => toString e.1 ++ ":" ++ showOpt e.2))

def showKV (l : List (String × String)) : String :=
  ",".intercalate (l.map (fun p => p.1 ++ "=" ++ p.2))

def showKH (l : List (String × Hist String)) : String :=
  ",".intercalate (l.map (fun p => p.1 ++ "=" ++ showHist p.2))

def sortKH (l : List (String × Hist String)) : List (String × Hist String) :=
  Table.sortByKey (V := Hist String) slt l

def dump (t : T) : String :=
  "db:" ++ showKV (Table.sortByKey slt t.db) ++ ";cdb:" ++ showKH (sortKH t.cdb) ++ ";cache:" ++ showKH (sortKH t.cache)

structure St where
  t : Option T := some Table.empty      -- none after a panic
  h : Option (Hist String) := none
  b : BlockDb String := {}

def showWrite : Write String String → String
  | .putCdb k h => "cdb put " ++ k ++ " " ++ showHist h
  | .delCdb k => "cdb del " ++ k
  | .putDb k v => "db put " ++ k ++ " " ++ v
  | .delDb k => "db del " ++ k

/-- The persistent writes of `commit(b)`: order within a key as issued, keys in byte order (the order across keys
is a hash-map iteration order on the implementation side). -/
def showWrites (t : T) (b : Nat) : String :=
  ";".intercalate (((sortKH t.cache).flatMap (fun p => Table.keyWrites W b p.1 p.2)).map showWrite)

def stepT (t : T) (ws : List String) : Option T × String :=
  match ws with
  | ["set", b, k, v] =>
    match Table.set W t b.toNat! k v with
    | some t' => (some t', "ok")
    | none => (none, "panic")
  | ["unset", b, k] =>
    match Table.unset W t b.toNat! k with
    | some t' => (some t', "ok")
    | none => (none, "panic")
  | ["latest", k] => (some t, showOpt (t.latest k))
  | ["range", lo, hi] => (some t, "[" ++ showKV (t.getRange slt lo hi) ++ "]")
  | ["all"] => (some t, "[" ++ showKV (t.all slt) ++ "]")
  | ["commit", b] => (some (t.commit W b.toNat!), "ok " ++ showWrites t b.toNat!)
  | ["clear"] => (some t.clear, "ok")
  | ["reopen"] => (some t.reopen, "ok")
  | ["reorg", n] =>
    match t.reorgLoad n.toNat! t.reorgKeys with
    | some tl => (some (tl.commit W n.toNat!), "ok " ++ showWrites tl n.toNat!)
    | none => (none, "panic")
  | ["dump"] => (some t, dump t)
  | _ => (some t, "bad-op")

def stepH (h : Hist String) (ws : List String) : Option (Hist String) × String :=
  match ws with
  | ["hset", b, v] =>
    match h.set W b.toNat! v with
    | some h' => (some h', "ok")
    | none => (none, "panic")
  | ["hunset", b] =>
    match h.unset W b.toNat! with
    | some h' => (some h', "ok")
    | none => (none, "panic")
  | ["hreorg", n] =>
    match h.reorg n.toNat! with
    | some h' => (some h', "ok")
    | none => (none, "panic")
  | ["hlatest"] => (some h, showOpt h.latest)
  | ["hisold", b] => (some h, toString (h.isOld W b.toNat!))
  | ["hdump"] => (some h, showHist h)
  | _ => (some h, "bad-op")

def showNV (l : List (Nat × String)) : String :=
  ",".intercalate (l.map (fun p => toString p.1 ++ "=" ++ p.2))

def sortNV (l : List (Nat × String)) : List (Nat × String) :=
  (BlockDb.sortedCache { db := [], cache := l } : List (Nat × String))

def stepB (t : BlockDb String) (ws : List String) : BlockDb String × String :=
  match ws with
  | ["bset", n, v] => (t.set n.toNat! v, "ok")
  | ["bget", n] => (t, showOpt (t.get n.toNat!))
  | ["bcommit"] => (t.commit, "ok")
  | ["bclear"] => (t.clear, "ok")
  | ["breopen"] => (t.clear, "ok")
  | ["blast"] => (t, match t.lastKey with | some k => toString k | none => "-")
  | ["breorg", n] => (t.reorg n.toNat!, "ok")
  | ["bdump"] => (t, "db:" ++ showNV (sortNV t.db) ++ ";cache:" ++ showNV (sortNV t.cache))
  | _ => (t, "bad-op")

def step (s : St) (line : String) : St × String :=
  let ws := (line.trimAscii.toString.splitOn " ").filter (· ≠ "")
  match ws with
  | "case" :: _ => ({}, "case")
  | ["hnew", v] => ({ s with h := some (Hist.new (if v = "-" then none else some v)) }, "ok")
  | w :: _ =>
    if w.startsWith "h" then
      match s.h with
      | some h => let (h', out) := stepH h ws; ({ s with h := h' }, out)
      | none => (s, "dead")
    else if w.startsWith "b" then
      let (b', out) := stepB s.b ws; ({ s with b := b' }, out)
    else
      match s.t with
      | some t => let (t', out) := stepT t ws; ({ s with t := t' }, out)
      | none => (s, "dead")
  | [] => (s, "bad-op")

end Brc20.DriverT
