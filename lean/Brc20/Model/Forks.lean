/-
Fork rules by network and height: model of `get_evm_spec` / `use_rlp_hash_for_tx_hash` (src/engine/hardforks.rs)
and of `get_bitcoin_network` (src/engine/precompiles/btc_utils.rs) as far as those two functions look at it.
The activation heights are parameters; the drivers and theorems instantiate them with the regenerated constants.
-/
namespace Brc20.Forks

inductive Net where
  | bitcoin
  | signet
  | other          -- testnet, testnet4, regtest and every unknown name
  deriving DecidableEq, Repr

def netOf (s : String) : Net :=
  if s == "bitcoin" || s == "mainnet" then .bitcoin else if s == "signet" then .signet else .other

/-- `get_evm_spec(h) == PRAGUE` (otherwise CANCUN) -/
def prague (pragueMainnet pragueSignet : Nat) (net : Net) (h : Nat) : Bool :=
  match net with
  | .bitcoin => decide (pragueMainnet ≤ h)
  | .signet => decide (pragueSignet ≤ h)
  | .other => true

/-- `use_rlp_hash_for_tx_hash(h)` -/
def rlpHash (rlpMainnet rlpSignet : Nat) (net : Net) (h : Nat) : Bool :=
  match net with
  | .bitcoin => decide (rlpMainnet ≤ h)
  | .signet => decide (rlpSignet ≤ h)
  | .other => true

/-- What a contract reads from the current-txid helper (`0x..fa`) during a transaction executed in block `exec`, given
the Bitcoin txid that was supplied *with that transaction* (for a parked signed transaction: when it was parked, in
whatever block): the supplied txid where the Prague rules are in force, nothing (the zero word: the address holds no
code before Prague, a call returns no data) elsewhere.  The block the transaction was parked in plays no part. -/
def txidSeen (pragueMainnet pragueSignet : Nat) (net : Net) (exec : Nat) (supplied zero : String) : String :=
  if prague pragueMainnet pragueSignet net exec then supplied else zero

/-- The same for a parked transaction whose (nonce, target, data) another signer parked again afterwards with the txid
`other`.  The txid row of a parked transaction is filed under its transaction hash; under the legacy rule (signing
hash, `rlpHash = false` at the parking block) that hash does not cover the signer, so the later submission overwrites
the row (known finding F21: contradicts "the txid supplied with *that* transaction"; consensus-level legacy behaviour
of mainnet below the RLP-hash activation height).  Under the RLP-hash rule the two hashes differ and nothing collides. -/
def txidSeenColliding (pragueMainnet pragueSignet rlpMainnet rlpSignet : Nat) (net : Net) (park exec : Nat)
    (supplied other zero : String) : String :=
  if prague pragueMainnet pragueSignet net exec then
    (if rlpHash rlpMainnet rlpSignet net park then supplied else other)
  else zero

end Brc20.Forks
