/-
Fork rules by network and height: model of `get_evm_spec` / `use_rlp_hash_for_tx_hash` (src/engine/hardforks.rs)
and of `get_bitcoin_network` (src/engine/precompiles/btc_utils.rs) as far as those two functions look at it.
The activation heights are parameters; the drivers and theorems instantiate them with the regenerated constants.
-/
namespace Brc20.Forks

inductive Net where
  | bitcoin
  | signet
  | other          -- testnet, testnet4, regtest and every unknown name
  deriving DecidableEq, Repr

def netOf (s : String) : Net :=
  if s == "bitcoin" || s == "mainnet" then .bitcoin else if s == "signet" then .signet else .other

/-- `get_evm_spec(h) == PRAGUE` (otherwise CANCUN) -/
def prague (pragueMainnet pragueSignet : Nat) (net : Net) (h : Nat) : Bool :=
  match net with
  | .bitcoin => decide (pragueMainnet ≤ h)
  | .signet => decide (pragueSignet ≤ h)
  | .other => true

/-- `use_rlp_hash_for_tx_hash(h)` -/
def rlpHash (rlpMainnet rlpSignet : Nat) (net : Net) (h : Nat) : Bool :=
  match net with
  | .bitcoin => decide (rlpMainnet ≤ h)
  | .signet => decide (rlpSignet ≤ h)
  | .other => true

end Brc20.Forks
