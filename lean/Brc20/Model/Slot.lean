/-
The engine's database slot (src/engine/engine.rs): the database lives in a shared slot; an EVM run moves it out
(`core::mem::take`, leaving an empty `Default` database with no handles) and must move it back before the closure is
left.  A request that leaves the slot empty wedges the server: every later request finds the empty database.
-/
namespace Brc20.Slot

/-- what a control path does to the slot -/
inductive Ev where
  | take       -- `core::mem::take(&mut *db)`
  | restore    -- `core::mem::swap(&mut *db, evm.ctx().db_mut())`
  | exit       -- leaves the closure here (`return`, or a `?` that saw an error)
  | fin        -- the closure's tail
  deriving DecidableEq, Repr

/-- `true` = the real database is in the slot -/
abbrev State := Bool

/-- Runs one path. `none` = the path does something the discipline forbids outright (takes twice, restores what was
not taken); otherwise the state in which the closure is left. -/
def runPath : State → List Ev → Option State
  | s, [] => some s
  | s, .take :: rest => if s then runPath false rest else none
  | s, .restore :: rest => if s then none else runPath true rest
  | s, .exit :: _ => some s
  | s, .fin :: _ => some s

/-- a path is balanced: entered with the database in place, it leaves it in place -/
def balanced (p : List Ev) : Bool := runPath true p == some true

/-- One request = one path of one region (which path depends on the request and on what the EVM answers: the choice
is arbitrary here). A request that finds the slot empty fails and changes nothing. -/
def serve (s : State) (p : List Ev) : State :=
  if s then (runPath true p).getD false else false

def serveAll (s : State) (ps : List (List Ev)) : State := ps.foldl serve s

end Brc20.Slot
