/-
Line-protocol driver for suite P (inscription payloads).  Text arguments travel as hex of their UTF-8 bytes.
  dec <hextext> <z>          z = `-` (no zstd involved) | `none` | `<len>:<fnv>`  (zstd oracle)
  enc <hexbytes> <zenc>      zenc = `none` | `<len>:<fnv>`  (length and hash of the zstd-compressed form)
  sel <rawhextext|-> <b64hextext|-> <z>
Answers: `none` | `some <len> <fnv>`;  `err` | `p0 <fnv text>` | `p1 <fnv text>` | `p2`;  `err` | `ok none` | `ok some <len> <fnv>`.
-/
import Brc20.Model.Payload
import Brc20.Model.CodecRecords

namespace Brc20.DriverP
open Brc20.Payload

def LIMIT : Nat := 1048576     -- checked against Gen.CALLDATA_LIMIT in Props/C15

def fnv (b : Bytes) : UInt64 :=
  b.foldl (fun h x => (h ^^^ x.toUInt64) * 0x100000001b3) 0xcbf29ce484222325

def fnvChars (cs : List Char) : UInt64 :=
  cs.foldl (fun h c => (h ^^^ (UInt8.ofNat c.toNat).toUInt64) * 0x100000001b3) 0xcbf29ce484222325

def textOfHex (h : String) : Option (List Char) :=
  if h = "~" then some [] else (hexToBytes h).map (fun bs => bs.map (fun b => Char.ofNat b.toNat))

/-- The zstd oracle as a function: whatever the body, the harness told us the outcome. The model only records
`len:fnv`; `zdecOracle` carries them through a placeholder byte string of that length is not needed - answers are
printed from (len, fnv) pairs, so the decode result is kept abstract. -/
inductive Res where
  | none
  | bytes (b : Bytes)
  | opaque (len : Nat) (h : String)

def showRes : Res → String
  | .none => "none"
  | .bytes b => "some " ++ toString b.length ++ " " ++ toString (fnv b).toNat
  | .opaque l h => "some " ++ toString l ++ " " ++ h

def parseZ (z : String) : Res :=
  if z = "none" || z = "-" then .none
  else match z.splitOn ":" with
    | [l, h] => .opaque l.toNat! h
    | _ => .none

/-- `decodePayload` with the zstd branch answered by the oracle. -/
def decode (s : List Char) (z : String) : Res :=
  match b64Decode (stripPad s) with
  | none => .none
  | some [] => .none
  | some (p :: body) =>
    if p = 2 then parseZ z
    else
      match decodePayload LIMIT (fun _ => none) (s) with
      | some b => (if p = 0 || p = 1 then .bytes b else .none : Res)
      | none => .none

def step (line : String) : String :=
  let ws := (line.trimAscii.toString.splitOn " ").filter (· ≠ "")
  match ws with
  | "case" :: _ => "case"
  | ["dec", h, z] =>
    match textOfHex h with
    | some s => showRes (decode s z)
    | none => "bad-hex"
  | ["enc", h, zenc] =>
    match (if h = "~" then some [] else hexToBytes h) with
    | none => "bad-hex"
    | some x =>
      if zenc = "none" then "err"
      else
        match zenc.splitOn ":" with
        | [l, _] =>
          let zl := l.toNat!
          let n := nadaEncode x
          if x.length < n.length ∧ x.length < zl then "p0 " ++ toString (fnvChars (b64Encode (0 :: x))).toNat
          else if n.length < zl then "p1 " ++ toString (fnvChars (b64Encode (1 :: n))).toNat
          else "p2"
        | _ => "bad-z"
  | ["sel", r, b, z] =>
    let raw : Option Res :=
      if r = "-" then none
      else match textOfHex r with
        | none => some .none
        | some cs =>
          -- `Bytes::from_hex`: optional 0x prefix, even number of hex digits of either case
          let body := if cs.take 2 = ['0', 'x'] then cs.drop 2 else cs
          let lower := body.map (fun c => if 'A' ≤ c && c ≤ 'F' then Char.ofNat (c.toNat + 32) else c)
          match hexToBytes (String.ofList lower) with
          | some bs => some (.bytes bs)
          | none => some .none
    let b64 : Option Res :=
      if b = "-" then none
      else match textOfHex b with
        | none => some .none
        | some cs => some (decode cs z)
    match raw, b64 with
    | some x, none => "ok " ++ showRes x
    | none, some y => "ok " ++ showRes y
    | _, _ => "err"
  | _ => "bad-op"

end Brc20.DriverP
