/-
Line-protocol driver for suite K (the BRC20 bridge ledger against the real controller bytecode in revm).
  k ctl <sender> <transfer|approve|transferFrom|mint|burn> <ticker> <args...>     a call to the controller
  k tok <sender> <ticker> <transfer|approve|transferFrom|approveAs|transferFromAs|mint|burn> <args...>   a direct call to a token
  k bal <ticker> <addr>        k supply <ticker>       k exists <ticker>
Addresses and tickers are hex, amounts decimal.  Answers: ok | revert ; a decimal number ; true | false.
-/
import Brc20.Model.Ledger
import Brc20.Model.CodecRecords

namespace Brc20.DriverK
open Brc20.Ledger

def hexNat (s : String) : Nat :=
  s.toList.foldl (fun acc c =>
    let d := if '0' ≤ c && c ≤ '9' then c.toNat - 48 else if 'a' ≤ c && c ≤ 'f' then c.toNat - 87 else 0
    acc * 16 + d) 0

def tick (s : String) : List UInt8 := if s = "~" then [] else (hexToBytes s).getD []

def CONTROLLER : Nat := hexNat "c54dd4581af2dbf18e4d90840226756e9d2b3cdb"
def INDEXER : Nat := hexNat "0000000000000000000000000000000000003ca6"

def init : Ctl := { self := CONTROLLER, owner := INDEXER }

def step (c : Ctl) (line : String) : Ctl × String :=
  let ws := (line.trimAscii.toString.splitOn " ").filter (· ≠ "")
  let run (m : Msg) (changed : Option Ctl) : Ctl × String :=
    match changed with
    | some c' => (c', "ok")
    | none => (Ledger.step c m, "revert")
  match ws with
  | "case" :: _ => (init, "case")
  | ["k", "ctl", s, "transfer", tk, to, v] =>
    let call := CCall.transfer (tick tk) (hexNat to) v.toNat!
    run (.ctl (hexNat s) call) (c.exec (hexNat s) call)
  | ["k", "ctl", s, "approve", tk, sp, v] =>
    let call := CCall.approve (tick tk) (hexNat sp) v.toNat!
    run (.ctl (hexNat s) call) (c.exec (hexNat s) call)
  | ["k", "ctl", s, "transferFrom", tk, f, to, v] =>
    let call := CCall.transferFrom (tick tk) (hexNat f) (hexNat to) v.toNat!
    run (.ctl (hexNat s) call) (c.exec (hexNat s) call)
  | ["k", "ctl", s, "mint", tk, to, v] =>
    let call := CCall.mint (tick tk) (hexNat to) v.toNat!
    run (.ctl (hexNat s) call) (c.exec (hexNat s) call)
  | ["k", "ctl", s, "burn", tk, f, v] =>
    let call := CCall.burn (tick tk) (hexNat f) v.toNat!
    run (.ctl (hexNat s) call) (c.exec (hexNat s) call)
  | "k" :: "tok" :: s :: tk :: rest =>
    let call? : Option Token.Call := match rest with
      | ["transfer", to, v] => some (.transfer (hexNat to) v.toNat!)
      | ["approve", sp, v] => some (.approve (hexNat sp) v.toNat!)
      | ["transferFrom", f, to, v] => some (.transferFrom (hexNat f) (hexNat to) v.toNat!)
      | ["approveAs", o, sp, v] => some (.approveAs (hexNat o) (hexNat sp) v.toNat!)
      | ["transferFromAs", sp, f, to, v] => some (.transferFromAs (hexNat sp) (hexNat f) (hexNat to) v.toNat!)
      | ["mint", a, v] => some (.mint (hexNat a) v.toNat!)
      | ["burn", a, v] => some (.burn (hexNat a) v.toNat!)
      | _ => none
    match call?, c.tokens.get? (tick tk) with
    | some call, some t =>
      match t.exec (hexNat s) call with
      | some t' => ({ c with tokens := c.tokens.insert (tick tk) t' }, "ok")
      | none => (c, "revert")
    | _, _ => (c, "revert")
  | ["k", "bal", tk, a] => (c, toString (c.balanceOf (tick tk) (hexNat a)))
  | ["k", "supply", tk] => (c, toString (c.totalSupply (tick tk)))
  | ["k", "exists", tk] => (c, toString (c.tokens.get? (tick tk)).isSome)
  | _ => (c, "bad-op")

end Brc20.DriverK
