/-
Record codecs built from the field lists regenerated from the Rust source (`Gen/Codecs.lean`),
plus the textual value form used by the correspondence suite C.
-/
import Brc20.Model.Codec
import Brc20.Gen.Codecs

namespace Brc20

/-- Split a Rust generic argument list at top-level commas. -/
def splitTop (s : List Char) : List (List Char) :=
  let rec go (cs : List Char) (depth : Nat) (cur : List Char) (acc : List (List Char)) : List (List Char) :=
    match cs with
    | [] => (cur.reverse :: acc).reverse
    | c :: rest =>
      if c = '<' || c = '(' then go rest (depth + 1) (c :: cur) acc
      else if c = '>' || c = ')' then go rest (depth - 1) (c :: cur) acc
      else if c = ',' && depth = 0 then go rest depth [] (cur.reverse :: acc)
      else go rest depth (c :: cur) acc
  go s 0 [] []

def stripWrap (pre : String) (s : String) : Option String :=
  if s.startsWith pre && s.endsWith ">" then
    some ((s.drop pre.length).dropRight 1 |>.toString)
  else none

/-- Named Rust types that are not records. -/
def primTy : String → Option Ty
  | "u8" => some .u8
  | "u32" => some .u32
  | "u64" => some .u64
  | "U8ED" => some (.uint 1)
  | "U64ED" => some (.uint 1)
  | "U128ED" => some (.uint 2)
  | "U256ED" => some (.uint 4)
  | "U512ED" => some (.uint 8)
  | "AddressED" => some (.fixed 20)
  | "B256ED" => some (.fixed 32)
  | "B2048ED" => some (.fixed 256)
  | "String" => some .bytes
  | "BytesED" => some .bytes
  | "BytecodeED" => some .bytes
  | _ => none

/-- Rust field type -> codec description. `fuel` bounds record nesting (TraceED is recursive: traces nested
deeper than the fuel are outside the model; at exhaustion the nested vector is typed `vec unit`). -/
def tyOfR (recs : List Gen.RecordCodec) (useDec : Bool) : Nat → Gen.RTy → Option Ty
  | 0, _ => some (Ty.vec Ty.unit)
  | fuel + 1, .opt t => (tyOfR recs useDec fuel t).map Ty.opt
  | fuel + 1, .vec t => (tyOfR recs useDec fuel t).map Ty.vec
  | fuel + 1, .name n =>
    match primTy n with
    | some t => some t
    | none =>
      match recs.find? (fun r => r.name == n) with
      | some r =>
        let tys := if useDec then r.dec.map (·.ty) else r.enc.map (·.ty)
        (tys.mapM (fun p => tyOfR recs useDec fuel p)).map Ty.record
      | none => none

/-- Type names as they appear on driver lines: `Option<..>`, `Vec<..>`, a plain name. (Driver only.) -/
partial def parseRTy (s : String) : Gen.RTy :=
  match stripWrap "Option<" s with
  | some inner => .opt (parseRTy inner)
  | none =>
    match stripWrap "Vec<" s with
    | some inner => .vec (parseRTy inner)
    | none => .name s

/-- Driver-level type expressions: additionally `Hist<V>` (a stored per-key history) and tuples `(A,B)`. -/
def tyOfRust (recs : List Gen.RecordCodec) (useDec : Bool) (fuel : Nat) (s : String) : Option Ty :=
  match stripWrap "Hist<" s with
  | some inner => (tyOfR recs useDec fuel (parseRTy inner)).map (fun t => Ty.vec (Ty.pair .u64 (Ty.pair (Ty.opt t) .unit)))
  | none =>
    if s.startsWith "(" && s.endsWith ")" then
      let parts := splitTop ((s.drop 1).dropRight 1).toString.toList
      (parts.mapM (fun p => tyOfR recs useDec fuel (parseRTy (String.ofList p)))).map Ty.record
    else tyOfR recs useDec fuel (parseRTy s)

def hexDigit (c : Char) : Option Nat :=
  if '0' ≤ c && c ≤ '9' then some (c.toNat - '0'.toNat)
  else if 'a' ≤ c && c ≤ 'f' then some (c.toNat - 'a'.toNat + 10)
  else none

def hexToBytes (s : String) : Option Bytes :=
  let rec go : List Char → Option Bytes
    | [] => some []
    | [_] => none
    | a :: b :: rest =>
      match hexDigit a, hexDigit b, go rest with
      | some x, some y, some r => some (UInt8.ofNat (x * 16 + y) :: r)
      | _, _, _ => none
  go s.toList

def hexChar (n : Nat) : Char := if n < 10 then Char.ofNat (n + 48) else Char.ofNat (n + 87)

def bytesToHex (b : Bytes) : String :=
  String.ofList (b.flatMap (fun x => [hexChar (x.toNat / 16), hexChar (x.toNat % 16)]))

/-- Is this description a record (right-nested pairs ending in unit)? Then list its fields' texts. -/
def showVal : (t : Ty) → t.denote → String
  | .u8, n => toString (n : Nat)
  | .u32, n => toString (n : Nat)
  | .u64, n => toString (n : Nat)
  | .uint _, n => toString (n : Nat)
  | .fixed _, b => "x" ++ bytesToHex b
  | .bytes, b => "x" ++ bytesToHex b
  | .opt _, none => "-"
  | .opt t, some x => "+" ++ showVal t x
  | .vec t, xs => "[" ++ " ".intercalate ((xs : List t.denote).map (showVal t)) ++ "]"
  | .pair a b, (x, y) =>
    -- records print as (f1 f2 ...): open at the first field, the tail closes
    let tail := showVal b y
    "(" ++ showVal a x ++ (if tail = "()" then ")" else " " ++ (tail.drop 1).toString)
  | .unit, _ => "()"

end Brc20
