/-
A process death in the middle of the engine's `commit_changes` (src/db/brc20_prog_database.rs), at table level.

The engine commits its tables ONE AFTER ANOTHER, each table issuing its own persistent writes in sequence:
first the three block-keyed tables, then the twelve versioned tables at the next height (computed once, before
the first write), and only then drops the caches.  The global sequence of persistent writes of one engine commit
is therefore the concatenation of the per-table write lists (`Node.globalWrites`); a process death after `j` of
them followed by a reopen is `Node.crashCommitAt n j`.

The order of the tables inside `commit_changes` is NOT the declaration order (`allBIds`, `allTIds`); it is
`commitOrderB`, `commitOrderT` below.  Everything is defined for an arbitrary order (`…In`) and instantiated with
the real one; the theorems (Proofs/NodeCrash.lean) do not depend on the order.
-/
import Brc20.Model.Node

namespace Brc20

namespace BlockDb
variable {V : Type}

/-- A crash after the first `i` persistent writes of `commit()`, followed by a reopen (the cache is lost). -/
def crashCommit (t : BlockDb V) (i : Nat) : BlockDb V :=
  (t.applyWrites (t.commitWrites.take i)).clear

end BlockDb

/-- One persistent write of the engine commit, tagged by the table that issues it. -/
inductive GWrite where
  | blk (i : BId) (w : BWrite String)
  | tbl (i : TId) (w : Write String String)

/-- Number of writes issued before the first write of part `i`, when the parts are issued along `l`
(`len k` writes for part `k`).  For `i ∉ l` this is the total number of writes. -/
def offsetIn {ι : Type} [DecidableEq ι] (len : ι → Nat) : List ι → ι → Nat
  | [], _ => 0
  | k :: rest, i => if k = i then 0 else len k + offsetIn len rest i

namespace Node

/-- order of the block-table commits in `Brc20ProgDatabase::commit_changes` -/
def commitOrderB : List BId := [.numberToHash, .block, .rawBlock]

/-- order of the versioned-table commits in `Brc20ProgDatabase::commit_changes` -/
def commitOrderT : List TId :=
  [.numIdx, .inscr, .contractInscr, .tx, .pending, .pendingTxid, .trace, .txReceipt, .accountMemory, .code, .account,
   .hashToNumber]

/-- persistent writes of the commit of block table `i` -/
def bWrites (n : Node) (i : BId) : List (BWrite String) := (n.b i).commitWrites

/-- persistent writes of the commit of versioned table `i` (at the next height, as `commitAll` does) -/
def tWrites (n : Node) (i : TId) : List (Write String String) := (n.t i).commitWrites W n.nextHeight

/-- the block-table part of the global write sequence, tables committed along `ob` -/
def blockPart (n : Node) (ob : List BId) : List GWrite :=
  ob.flatMap (fun i => (n.bWrites i).map (GWrite.blk i))

/-- the versioned-table part of the global write sequence, tables committed along `ot` -/
def tablePart (n : Node) (ot : List TId) : List GWrite :=
  ot.flatMap (fun i => (n.tWrites i).map (GWrite.tbl i))

/-- All persistent writes of `commitAll`, in the order they are issued, for a given table order. -/
def globalWritesIn (n : Node) (ob : List BId) (ot : List TId) : List GWrite :=
  n.blockPart ob ++ n.tablePart ot

/-- All persistent writes of `commitAll`, in the order the engine issues them. -/
def globalWrites (n : Node) : List GWrite := n.globalWritesIn commitOrderB commitOrderT

/-- issue one tagged write -/
def applyG (n : Node) : GWrite → Node
  | .blk i w => n.setB i ((n.b i).applyWrite w)
  | .tbl i w => n.setT i ((n.t i).applyWrite w)

/-- Reopening the directory in a new process: every cache, the in-memory height and the block under construction
are lost; the columns and the written-through `max_block_number` row survive. -/
def lose (n : Node) : Node :=
  { n with t := fun i => (n.t i).clear, b := fun i => (n.b i).clear, latest := none, lbi := {} }

/-- The process dies after the first `j` persistent writes of `commitAll` (tables committed along `ob`, `ot`);
the directory is reopened. -/
def crashCommitAtIn (n : Node) (ob : List BId) (ot : List TId) (j : Nat) : Node :=
  (((n.globalWritesIn ob ot).take j).foldl applyG n).lose

/-- The process dies after the first `j` persistent writes of the engine commit; the directory is reopened. -/
def crashCommitAt (n : Node) (j : Nat) : Node := n.crashCommitAtIn commitOrderB commitOrderT j

/-- Every table cut at its own index of its own commit (0 = untouched, ≥ number of writes = fully committed),
then a reopen. -/
def crashIdx (n : Node) (ib : BId → Nat) (it : TId → Nat) : Node :=
  { n with t := fun i => (n.t i).crashCommit W n.nextHeight (it i),
           b := fun i => (n.b i).crashCommit (ib i),
           latest := none, lbi := {} }

/-- cut index of block table `i` when the process dies at global write `j` -/
def ibOfIn (n : Node) (ob : List BId) (j : Nat) (i : BId) : Nat :=
  j - offsetIn (fun k => (n.bWrites k).length) ob i

/-- cut index of versioned table `i` when the process dies at global write `j` -/
def itOfIn (n : Node) (ob : List BId) (ot : List TId) (j : Nat) (i : TId) : Nat :=
  j - (n.blockPart ob).length - offsetIn (fun k => (n.tWrites k).length) ot i

def ibOf (n : Node) (j : Nat) (i : BId) : Nat := n.ibOfIn commitOrderB j i
def itOf (n : Node) (j : Nat) (i : TId) : Nat := n.itOfIn commitOrderB commitOrderT j i

/-! ### a process death inside `Brc20ProgDatabase::reorg`

`reorg(m)` runs every versioned table's own `reorg(m)` one after another (each: load and truncate the histories in
memory, then `commit(m)`, which issues that table's persistent writes), then deletes the block rows above `m`, then
calls `commit_changes` (covered by `crashCommitAt` of the node reached at that point). -/

/-- order of the versioned-table rollbacks in `Brc20ProgDatabase::reorg` -/
def reorgOrderT : List TId :=
  [.accountMemory, .code, .account, .hashToNumber, .numIdx, .txReceipt, .inscr, .contractInscr, .tx, .pending,
   .pendingTxid, .trace]

/-- table `i` as its own `reorg(m)` has loaded and truncated it in memory, before the commit that ends it
(the table itself if the load panics) -/
def reorgLoaded (n : Node) (m : Nat) (i : TId) : Table String String :=
  ((n.t i).reorgLoad m (n.t i).reorgKeys).getD (n.t i)

/-- persistent writes of table `i`'s own `reorg(m)` -/
def reorgWrites (n : Node) (m : Nat) (i : TId) : List (Write String String) :=
  (n.reorgLoaded m i).commitWrites W m

/-- all persistent writes of the table phase of `reorg(m)`, tables rolled back along `ot` -/
def reorgPart (n : Node) (m : Nat) (ot : List TId) : List GWrite :=
  ot.flatMap (fun i => (n.reorgWrites m i).map (GWrite.tbl i))

/-- The process dies after the first `j` persistent writes of the table phase of `reorg(m)`; reopen.  (Loading is
in memory only, so loading every table first and then issuing the writes leaves the same columns.) -/
def crashReorgAtIn (n : Node) (m : Nat) (ot : List TId) (j : Nat) : Node :=
  (((n.reorgPart m ot).take j).foldl applyG { n with t := n.reorgLoaded m }).lose

def crashReorgAt (n : Node) (m : Nat) (j : Nat) : Node := n.crashReorgAtIn m reorgOrderT j

/-- Inside `reorg(m)`: every versioned table cut at its own index of the commit that ends its own rollback
(0 = not started, ≥ number of writes = done); the block columns are `u` (in the table phase: untouched, `u i =
(n.b i).db`; in the block phase: some rows above `m` already deleted); reopen. -/
def crashReorgIdx (n : Node) (m : Nat) (it : TId → Nat) (u : BId → AMap Nat String) : Node :=
  { n with t := fun i => (n.reorgLoaded m i).crashCommit W m (it i),
           b := fun i => { db := u i, cache := [] },
           latest := none, lbi := {} }

def itReorgIn (n : Node) (m : Nat) (ot : List TId) (j : Nat) (i : TId) : Nat :=
  j - offsetIn (fun k => (n.reorgWrites m k).length) ot i

end Node
end Brc20
