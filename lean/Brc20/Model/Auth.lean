/-
Authentication: model of `HttpNonBlockingAuth::validate` and `RpcAuthMiddleware` (src/server/auth.rs).
The HTTP layer marks a request as authorised (it never rejects); the RPC layer refuses protected methods of
unmarked requests - single calls, notifications, and every entry of a batch separately.
-/
namespace Brc20.Auth

structure Cfg where
  enabled : Bool
  expected : String          -- "Basic " ++ base64(user ":" password)
  deriving DecidableEq, Repr

/-- `HttpNonBlockingAuth::validate`: the `Authorized` extension is set iff auth is off or the header is the
expected one, byte for byte. -/
def marked (c : Cfg) (header : Option String) : Bool := !c.enabled || header == some c.expected

/-- `validate_call` / `validate_notification` -/
def allow (deny : List String) (isMarked : Bool) (method : String) : Bool := isMarked || !deny.contains method

inductive Entry where
  | call (method : String)
  | notification (method : String)
  | malformed
  deriving DecidableEq, Repr

inductive Outcome where
  | forwarded          -- handed to the inner service (the method runs / the inner service reports its own error)
  | unauthorized       -- answered with error 401 "Unauthorized", never reaches the inner service
  | dropped            -- a refused bare notification: no response at all
  deriving DecidableEq, Repr

def serveCall (deny : List String) (m : Bool) (method : String) : Outcome :=
  if allow deny m method then .forwarded else .unauthorized

def serveNotification (deny : List String) (m : Bool) (method : String) : Outcome :=
  if allow deny m method then .forwarded else .dropped

/-- one batch entry: refused calls *and* refused notifications become error entries; malformed entries are left to
the inner service (which answers "invalid request" without running anything) -/
def serveBatchEntry (deny : List String) (m : Bool) : Entry → Outcome
  | .call method => if allow deny m method then .forwarded else .unauthorized
  | .notification method => if allow deny m method then .forwarded else .unauthorized
  | .malformed => .forwarded

def serveBatch (deny : List String) (m : Bool) (b : List Entry) : List Outcome := b.map (serveBatchEntry deny m)

end Brc20.Auth
