/-
Configuration database check at start-up: model of `validate_config_database` and `ConfigDatabase::validate`
(src/global/database.rs).  A configuration is represented by the four strings that are recorded
(`DB_VERSION.to_string()`, `PROTOCOL_VERSION.to_string()`, the network name, `evm_record_traces.to_string()`);
the renderings are injective, so equality of strings is equality of settings.
-/
import Brc20.Model.AMap

namespace Brc20.Config

structure Cfg where
  dbVersion : String
  protocolVersion : String
  network : String
  traces : String
  deriving DecidableEq, Repr

/-- What is at `db_path`. -/
inductive Dir where
  | missing
  | file                                            -- exists but is not a directory
  | dir (nonEmpty : Bool) (rows : AMap String String) -- `rows` = contents of the `config` column family
  deriving Repr

def kDb := "DB_VERSION"
def kProto := "PROTOCOL_VERSION"
def kNet := "BITCOIN_RPC_NETWORK"
def kTraces := "EVM_RECORD_TRACES"

def rowsOf (c : Cfg) : List (String × String) :=
  [(kDb, c.dbVersion), (kProto, c.protocolVersion), (kNet, c.network), (kTraces, c.traces)]

/-- `config_database.set` four times on a fresh run. -/
def writeRows (rows : AMap String String) (c : Cfg) : AMap String String :=
  (rowsOf c).foldl (fun m p => m.insert p.1 p.2) rows

inductive Err where
  | notDirectory
  | notFound (key : String)
  | mismatch (key : String)
  deriving DecidableEq, Repr

/-- `ConfigDatabase::validate` -/
def validateKey (rows : AMap String String) (key value : String) : Except Err Unit :=
  match rows.get? key with
  | some v => if v = value then .ok () else .error (.mismatch key)
  | none => .error (.notFound key)

/-- `validate_config_database`: returns the directory as it is afterwards. -/
def validate (d : Dir) (c : Cfg) : Except Err Dir :=
  match d with
  | .file => .error .notDirectory
  | .missing => .ok (.dir true (writeRows [] c))
  | .dir false rows => .ok (.dir true (writeRows rows c))        -- empty directory: fresh run
  | .dir true rows =>
    match validateKey rows kDb c.dbVersion with
    | .error e => .error e
    | .ok _ =>
    match validateKey rows kProto c.protocolVersion with
    | .error e => .error e
    | .ok _ =>
    match validateKey rows kNet c.network with
    | .error e => .error e
    | .ok _ =>
    match validateKey rows kTraces c.traces with
    | .error e => .error e
    | .ok _ => .ok (.dir true rows)

/-- The directory a fresh start with configuration `c` leaves behind. -/
def created (c : Cfg) : Dir := .dir true (writeRows [] c)

end Brc20.Config
