/-
Line-protocol driver for suite C (storage codec).
  rt  <Type> <hex> <text>         decode hex (an encoding produced by the real encoder)
  rtj <Type> <hex> <junk> <text>  decode hex ++ junk
  dec <Type> <hex>                decode arbitrary bytes
  ord <hexA> <hexB>               byte-lexicographic comparison of two encoded keys
Answer: `<value text> <bytes consumed>` or `fail`; for `ord`: lt | eq | gt.
The record field lists come from `Gen/Codecs.lean` (regenerated from the Rust source): decoding uses the
source's *decode* sequence, re-encoding uses its *encode* sequence.
-/
import Brc20.Model.CodecRecords
import Brc20.Model.Gas
import Brc20.Model.Forks

namespace Brc20.DriverC

def fuel : Nat := 12

def decTy (name : String) : Option Ty := tyOfRust Gen.records true fuel name
def encTy (name : String) : Option Ty := tyOfRust Gen.records false fuel name

def decodeLine (name : String) (bs : Bytes) : String :=
  match decTy name, encTy name with
  | some t, some te =>
    match t.decode bs with
    | none => "fail"
    | some (v, rest) =>
      let consumed := bs.length - rest.length
      -- re-encode with the encode-side description; it is the same description unless the source diverged
      if h : te = t then
        let enc := te.encode (h ▸ v)
        if enc = bs.take consumed then showVal t v ++ " " ++ toString consumed
        else showVal t v ++ " " ++ toString consumed ++ " reenc-differs"
      else showVal t v ++ " " ++ toString consumed ++ " enc-dec-types-differ"
  | _, _ => "unknown-type"

def step (line : String) : String :=
  let ws := (line.trimAscii.toString.splitOn " ").filter (· ≠ "")
  match ws with
  | "case" :: _ => "case"
  | "rt" :: name :: hex :: _ =>
    match hexToBytes hex with
    | some bs => decodeLine name bs
    | none => "bad-hex"
  | "rtj" :: name :: hex :: junk :: _ =>
    match hexToBytes hex, hexToBytes junk with
    | some bs, some j => decodeLine name (bs ++ j)
    | _, _ => "bad-hex"
  | ["dec", name, hex] =>
    match hexToBytes hex with
    | some bs => decodeLine name bs
    | none => "bad-hex"
  | ["fork", net, h] =>
    -- activation heights pinned to Gen by Props/C19 (`C19.fork_heights_pinned`); `-` stands for the empty name
    let nt := Forks.netOf (if net == "-" then "" else net)
    (if Forks.prague 923369 275000 nt h.toNat! then "PRAGUE" else "CANCUN") ++ " " ++
      toString (Forks.rlpHash 929000 0 nt h.toNat!)
  | ["gas", n] =>
    -- `get_gas_limit` / `get_inscription_byte_len` with GAS_PER_BYTE = 12000 (pinned to Gen by Props/C16)
    toString (Gas.gasLimit 12000 n.toNat!) ++ " " ++ toString (Gas.byteLenOf 12000 n.toNat!)
  | ["ord", a, b] =>
    match hexToBytes a, hexToBytes b with
    | some x, some y => if bytesLt x y then "lt" else if bytesLt y x then "gt" else "eq"
    | _, _ => "bad-hex"
  | _ => "bad-op"

end Brc20.DriverC
