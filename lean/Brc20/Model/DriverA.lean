/-
Line-protocol driver for suite A (authentication).
  http auth=<on|off> hdr=<none|ok|...> kind=<call|notif|batch> methods=<a,b,~c,!>
Answer: one letter per entry: F forwarded, U unauthorized, `-` for a bare notification.
The protected list is the regenerated `Gen.denyList`.
-/
import Brc20.Model.Auth
import Brc20.Gen.Methods

namespace Brc20.DriverA
open Brc20.Auth

def field (ws : List String) (k : String) : String :=
  match ws.find? (fun w => w.startsWith (k ++ "=")) with
  | some w => (w.drop (k.length + 1)).toString
  | none => ""

def letter : Outcome → String
  | .forwarded => "F"
  | .unauthorized => "U"
  | .dropped => "-"

def step (line : String) : String :=
  let ws := (line.trimAscii.toString.splitOn " ").filter (· ≠ "")
  match ws with
  | "case" :: _ => "case"
  | "http" :: rest =>
    let cfg : Cfg := { enabled := field rest "auth" == "on", expected := "ok" }
    -- the header kinds are abstract: only `ok` is byte-for-byte the expected header
    let hdr : Option String := if field rest "hdr" == "none" then none else some (field rest "hdr")
    let m := marked cfg hdr
    let entries := (field rest "methods").splitOn ","
    match field rest "kind" with
    | "call" => letter (serveCall Gen.denyList m (entries.headD ""))
    | "notif" => "-"
    | _ =>
      String.join ((serveBatch Gen.denyList m (entries.map (fun e =>
        if e == "!" then Entry.malformed
        else if e.startsWith "~" then Entry.notification (e.drop 1).toString
        else Entry.call e))).map letter)
  | _ => "bad-op"

end Brc20.DriverA
