/-
Simulations (`read_contract`, `read_contract_multi` in src/engine/engine.rs): the environment a simulation runs in,
and the nonce bookkeeping of a multi-call.

`read_contract_multi` seeds `nonces : HashMap<Address, u64>` with the account nonce of every caller, then walks the
calls in order: a call takes its caller's entry and bumps it by one (whatever the call's outcome); an `Err` from
revm ends the round.  `eth_callMany` is one round; `eth_estimateGasMany` is a sequence of rounds over the same calls
(the first with the default gas limits, then the bisection probes, then the confirmation), and a round that revm
refuses part-way is simply shorter.  The recorded `X simmulti` events of one request are therefore a concatenation of
rounds; a round ends after `ncalls` runs or after a run that revm refused.
No imports beyond the model: part of the executable driver.
-/
import Brc20.Model.Node

namespace Brc20
namespace Node

/-- recorded runs of kind `simmulti`: environment + "revm returned a result" -/
def multiRuns (evs : List Ev) : List (List (String × String) × Bool) :=
  evs.filterMap (fun e => match e with
    | .x "simmulti" fs okRun _ _ _ => some (fs, okRun)
    | _ => none)

/-- Environment of one call of a multi-simulation made without an explicit block: the height the next transaction
will be built at, the nonce handed out by the round's bookkeeping, zero fees. -/
def simMultiEnvOk (n : Node) (fs : List (String × String)) (nonce : Nat) : Bool :=
  field fs "number" == toString n.nextHeight && field fs "nonce" == toString nonce &&
  field fs "basefee" == "0" && field fs "gasprice" == "0" && field fs "value" == "0" &&
  field fs "coinbase" == "0000000000000000000000000000000000000000" &&
  field fs "blockgaslimit" == blockGasLimit

/-- the entry of `nonces` for caller `c` (seeded with the account nonce) -/
def nonceEntry (acct : String → Nat) (m : AMap String Nat) (c : String) : Nat :=
  match m.get? c with
  | some v => v
  | none => acct c

/-- The loop of `read_contract_multi` over the recorded runs of one request: `m` is the `nonces` map of the current
round, `k` the number of calls of the round already made. -/
def multiCheckAux (n : Node) (ncalls : Nat) : AMap String Nat → Nat → List (List (String × String) × Bool) → Bool
  | _, _, [] => true
  | m, k, (fs, okRun) :: rest =>
    let c := field fs "caller"
    let cur := nonceEntry n.accountNonce m c
    simMultiEnvOk n fs cur &&
      (if okRun && decide (k + 1 < ncalls) then multiCheckAux n ncalls (m.insert c (cur + 1)) (k + 1) rest
       else multiCheckAux n ncalls [] 0 rest)

def simMultiOk (n : Node) (ncalls : Nat) (runs : List (List (String × String) × Bool)) : Bool :=
  multiCheckAux n ncalls [] 0 runs

/-- The plain statement of what a round hands out: the `i`-th call runs with its caller's account nonce plus the
number of earlier calls of the round made by the same caller - the nonce that caller's `i`-th transaction will carry
when the same calls are submitted as transactions in this order. -/
def roundNonces (acct : String → Nat) : List String → List String → List Nat
  | _, [] => []
  | seen, c :: cs => (acct c + seen.count c) :: roundNonces acct (c :: seen) cs

/-- the same, computed the way the Rust does (map seeded lazily) -/
def roundNoncesImpl (acct : String → Nat) : AMap String Nat → List String → List Nat
  | _, [] => []
  | m, c :: cs =>
    let cur := nonceEntry acct m c
    cur :: roundNoncesImpl acct (m.insert c (cur + 1)) cs

end Node
end Brc20
