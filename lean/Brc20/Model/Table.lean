/-
Versioned table: model of `BlockCachedDatabase<K, V, BlockHistoryCacheData<V>>`
(src/db/cached_database/block_cached_database.rs).

  db    : the RocksDB value column   (key ↦ latest committed value)
  cdb   : the RocksDB history column (key ↦ encoded history)       -- `cache_db`
  cache : the in-memory `HashMap<K, C>`

Keys and values are the *encoded* byte strings (the codec is modelled and proved lossless separately),
`lt` is the byte-lexicographic order RocksDB iterates in.  `none` results are Rust panics.
-/
import Brc20.Model.AMap
import Brc20.Model.Hist

namespace Brc20

structure Table (K V : Type) where
  db : AMap K V := []
  cdb : AMap K (Hist V) := []
  cache : AMap K (Hist V) := []

/-- One persistent write, in the order `commit` issues them. -/
inductive Write (K V : Type) where
  | putCdb (k : K) (h : Hist V)
  | delCdb (k : K)
  | putDb (k : K) (v : V)
  | delDb (k : K)

namespace Table
variable {K V : Type} [DecidableEq K] [DecidableEq V]

def empty : Table K V := {}

/-- `latest` -/
def latest (t : Table K V) (k : K) : Option V :=
  match t.cache.get? k with
  | some h => h.latest
  | none => t.db.get? k

/-- `retrieve_cache`: the history the next write will act on. -/
def retrieve (t : Table K V) (k : K) : Hist V :=
  match t.cache.get? k with
  | some h => h
  | none =>
    match t.cdb.get? k with
    | some h => h
    | none => Hist.new (t.db.get? k)

/-- `set`; `none` = panic inside `BlockHistoryCacheData::set`. -/
def set (W : Nat) (t : Table K V) (b : Nat) (k : K) (v : V) : Option (Table K V) :=
  match (t.retrieve k).set W b v with
  | some h => some { t with cache := t.cache.insert k h }
  | none => none

/-- `unset` -/
def unset (W : Nat) (t : Table K V) (b : Nat) (k : K) : Option (Table K V) :=
  match (t.retrieve k).unset W b with
  | some h => some { t with cache := t.cache.insert k h }
  | none => none

/-- The persistent writes `commit(b)` issues for one cached key. A history that is kept is written before the
value row; an old history is deleted only *after* the value row is up to date (so that a crash between the two
writes always leaves a history on disk from which a later reorg can restore the value row). -/
def keyWrites (W : Nat) (b : Nat) (k : K) (h : Hist V) : List (Write K V) :=
  let valueRow : Write K V := match h.latest with
    | some v => Write.putDb k v
    | none => Write.delDb k
  if h.isOld W b then [valueRow, Write.delCdb k] else [Write.putCdb k h, valueRow]

/-- All persistent writes of `commit(b)`, in `HashMap` iteration order of the cache. -/
def commitWrites (W : Nat) (t : Table K V) (b : Nat) : List (Write K V) :=
  t.cache.flatMap (fun p => keyWrites W b p.1 p.2)

def applyWrite (t : Table K V) : Write K V → Table K V
  | .putCdb k h => { t with cdb := t.cdb.insert k h }
  | .delCdb k => { t with cdb := t.cdb.erase k }
  | .putDb k v => { t with db := t.db.insert k v }
  | .delDb k => { t with db := t.db.erase k }

def applyWrites (t : Table K V) (ws : List (Write K V)) : Table K V :=
  ws.foldl applyWrite t

/-- `clear_cache` -/
def clear (t : Table K V) : Table K V := { t with cache := [] }

/-- `commit(b)` = issue the writes, then drop the cache. -/
def commit (W : Nat) (t : Table K V) (b : Nat) : Table K V :=
  (t.applyWrites (t.commitWrites W b)).clear

/-- A crash after the first `i` persistent writes of `commit(b)`, followed by a reopen. -/
def crashCommit (W : Nat) (t : Table K V) (b : Nat) (i : Nat) : Table K V :=
  (t.applyWrites ((t.commitWrites W b).take i)).clear

/-- The key set `reorg` walks: persisted histories plus cached ones (a `HashSet`: order arbitrary, no repeats). -/
def reorgKeys (t : Table K V) : List K :=
  (t.cdb.keys ++ t.cache.keys).eraseDups

/-- Load and truncate every history; `none` = "Reorg too deep" panic. -/
def reorgLoad (t : Table K V) (n : Nat) : List K → Option (Table K V)
  | [] => some t
  | k :: ks =>
    match (t.retrieve k).reorg n with
    | some h => reorgLoad { t with cache := t.cache.insert k h } n ks
    | none => none

/-- `reorg(n)` -/
def reorg (W : Nat) (t : Table K V) (n : Nat) : Option (Table K V) :=
  match t.reorgLoad n t.reorgKeys with
  | some t' => some (t'.commit W n)
  | none => none

/-- Reopening the directory in a new process: only the two columns survive. -/
def reopen (t : Table K V) : Table K V := t.clear

/-- Insertion sort by key (the result of a scan is returned in key order). -/
def insertSorted (lt : K → K → Bool) (p : K × V) : List (K × V) → List (K × V)
  | [] => [p]
  | q :: rest => if lt p.1 q.1 then p :: q :: rest else q :: insertSorted lt p rest

def sortByKey (lt : K → K → Bool) (l : List (K × V)) : List (K × V) :=
  l.foldr (insertSorted lt) []

/-- Overlay the cached histories on a base map: a cached key shows its latest value, or disappears. -/
def overlay (base : AMap K V) : AMap K (Hist V) → AMap K V
  | [] => base
  | (k, h) :: rest =>
    match h.latest with
    | some v => overlay (base.insert k v) rest
    | none => overlay (base.erase k) rest

/-- `get_range(lo, hi)`: keys with `lo ≤ k < hi` in encoded order, returned sorted by key. -/
def getRange (lt : K → K → Bool) (t : Table K V) (lo hi : K) : List (K × V) :=
  let inRange := fun (k : K) => !lt k lo && lt k hi
  sortByKey lt (overlay (t.db.filter (fun p => inRange p.1)) (t.cache.filter (fun p => inRange p.1)))

/-- `all()`; the Rust returns the pairs in `HashMap` order, the model in key order (compared as a set). -/
def all (lt : K → K → Bool) (t : Table K V) : List (K × V) :=
  sortByKey lt (overlay t.db t.cache)

end Table
end Brc20
