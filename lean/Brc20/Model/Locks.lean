/-
Lock protocol: model of the engine's use of `SharedData` (std `RwLock`, writer-preferring on Linux: a reader is
admitted only if no writer holds the lock and no writer is waiting for it).

A request handler is a *program*: the sequence of lock operations it performs (recorded from the running code by the
tracer hook, `Gen/LockTraces.lean`).  A system is any number of threads each running one of the programs;
the semantics is interleaving, one lock operation at a time.
-/
namespace Brc20.Locks

inductive Op where
  | rd (l : Nat)      -- acquire a read guard of lock l
  | wr (l : Nat)      -- acquire the write guard of lock l (request, then grant)
  | rel (l : Nat)     -- release the most recently acquired guard of lock l
  deriving DecidableEq, Repr

abbrev Prog := List Op

/-- One thread: what remains to run, the guards it holds (lock, isWrite), and whether it has an outstanding
write request (the lock it queued for). -/
structure Thread where
  todo : Prog
  held : List (Nat × Bool) := []
  waitingW : Option Nat := none
  deriving DecidableEq, Repr

abbrev Sys := List Thread

def readersOf (s : Sys) (l : Nat) : Nat := (s.map (fun t => (t.held.filter (fun h => h.1 == l && !h.2)).length)).sum
def writerHeld (s : Sys) (l : Nat) : Bool := s.any (fun t => t.held.any (fun h => h.1 == l && h.2))
def writerWaiting (s : Sys) (l : Nat) : Bool := s.any (fun t => t.waitingW == some l)

/-- Can thread `t` of system `s` take its next step? -/
def enabled (s : Sys) (t : Thread) : Bool :=
  match t.waitingW, t.todo with
  | some l, _ => !writerHeld s l && readersOf s l == 0          -- queued writer: granted when the lock is free
  | none, [] => false
  | none, .rd l :: _ => !writerHeld s l && !writerWaiting s l   -- writer-preferring admission of readers
  | none, .wr _ :: _ => true                                    -- queuing a write request is always possible
  | none, .rel _ :: _ => true

/-- remove the most recently acquired guard of `l` -/
def dropGuard (l : Nat) : List (Nat × Bool) → List (Nat × Bool)
  | [] => []
  | h :: rest => if h.1 = l then rest else h :: dropGuard l rest

/-- The step thread `t` takes (guards are kept most-recent-first). -/
def stepThread (t : Thread) : Thread :=
  match t.waitingW, t.todo with
  | some l, todo => { todo := todo, held := (l, true) :: t.held, waitingW := none }
  | none, .rd l :: rest => { t with todo := rest, held := (l, false) :: t.held }
  | none, .wr l :: rest => { t with todo := rest, waitingW := some l }
  | none, .rel l :: rest => { t with todo := rest, held := dropGuard l t.held }
  | none, [] => t

def finished (t : Thread) : Bool := t.todo.isEmpty && t.waitingW.isNone

/-- `s'` is `s` with its `i`-th thread having taken an enabled step. -/
def Step (s s' : Sys) : Prop :=
  ∃ i t, s[i]? = some t ∧ enabled s t = true ∧ s' = s.set i (stepThread t)

inductive Reach (s0 : Sys) : Sys → Prop where
  | refl : Reach s0 s0
  | step {s s'} : Reach s0 s → Step s s' → Reach s0 s'

/-- Deadlock: some thread is unfinished and nobody can move. -/
def Stuck (s : Sys) : Prop := (∃ t ∈ s, finished t = false) ∧ ∀ t ∈ s, enabled s t = false

/-! ### The discipline every recorded handler obeys -/

/-- run a program symbolically, tracking held guards; `none` = discipline violated:
 D1 a lock already held by the thread is acquired again (read or write),
 D2 a lock is acquired whose rank is not above every held lock's rank,
 D3 a release without a matching guard; at the end everything must have been released. -/
def checkProg (rank : Nat → Nat) : Prog → List (Nat × Bool) → Bool
  | [], held => held.isEmpty
  | .rd l :: rest, held =>
    !(held.any (fun h => h.1 == l)) && held.all (fun h => rank h.1 < rank l) && checkProg rank rest ((l, false) :: held)
  | .wr l :: rest, held =>
    !(held.any (fun h => h.1 == l)) && held.all (fun h => rank h.1 < rank l) && checkProg rank rest ((l, true) :: held)
  | .rel l :: rest, held =>
    held.any (fun h => h.1 == l) && checkProg rank rest (dropGuard l held)

def Disciplined (rank : Nat → Nat) (p : Prog) : Prop := checkProg rank p [] = true

/-- a system started from fresh threads, each running a disciplined program -/
def initSys (ps : List Prog) : Sys := ps.map (fun p => { todo := p })

end Brc20.Locks
