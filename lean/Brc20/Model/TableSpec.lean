/-
The abstract specification a versioned table is compared with: a plain map from keys to their *full*
write log (never pruned), the log as of the last commit, and two counters.
This is the "straightforward in-memory model" of property C13; the harness keeps the same reference
(struct `Ref` in harness/src/suite_t.rs).
-/
import Brc20.Model.Table

namespace Brc20

/-- Operations of the table API, as the database layer issues them. -/
inductive TOp (K V : Type) where
  | set (b : Nat) (k : K) (v : V)
  | unset (b : Nat) (k : K)
  | commit (b : Nat)
  | clear                      -- `clear_cache`, and also stop + reopen
  | reorg (n : Nat)

structure TSpec (K V : Type) where
  cur : K → Hist V             -- full per-key log, uncommitted writes included
  dur : K → Hist V             -- the log as of the last commit
  top : Nat                    -- every stamp present is ≤ top
  maxEver : Nat                -- newest block number ever passed to the table

namespace TSpec
variable {K V : Type} [DecidableEq K] [DecidableEq V]

def init : TSpec K V :=
  { cur := fun _ => Hist.new none, dur := fun _ => Hist.new none, top := 0, maxEver := 0 }

/-- A write that does not change the value is not a new version. -/
def logWrite (h : Hist V) (b : Nat) (x : Option V) : Hist V :=
  if h.latest = x then h else h.put b x

def upd (f : K → Hist V) (k : K) (h : Hist V) : K → Hist V :=
  fun k' => if k' = k then h else f k'

def step (s : TSpec K V) : TOp K V → TSpec K V
  | .set b k v => { s with cur := upd s.cur k (logWrite (s.cur k) b (some v)), top := b, maxEver := max s.maxEver b }
  | .unset b k => { s with cur := upd s.cur k (logWrite (s.cur k) b none), top := b, maxEver := max s.maxEver b }
  | .commit b => { s with dur := s.cur, maxEver := max s.maxEver (b - 1) }
  | .clear => { s with cur := s.dur }
  | .reorg n =>
    let f := fun k => (s.cur k).filter (fun e => decide (e.1 ≤ n))
    { s with cur := f, dur := f, top := min s.top n }

/-- What the caller must respect: stamps never go backwards; a rollback target is at most `W` below, and not above,
the newest block number ever passed to the table. -/
def legal (W : Nat) (s : TSpec K V) : TOp K V → Prop
  | .set b _ _ => s.top ≤ b
  | .unset b _ => s.top ≤ b
  | .commit _ => True
  | .clear => True
  | .reorg n => s.maxEver ≤ n + W ∧ n ≤ s.maxEver

/-- The value the plain map holds for `k`. -/
def read (s : TSpec K V) (k : K) : Option V := (s.cur k).latest

/-- The value `k` had at the end of block `n`. -/
def readAt (s : TSpec K V) (k : K) (n : Nat) : Option V :=
  match (s.cur k).valAt n with
  | some x => x
  | none => none

end TSpec

namespace Table
variable {K V : Type} [DecidableEq K] [DecidableEq V]

/-- One API call on the model table; `none` = a Rust panic. -/
def step (W : Nat) (t : Table K V) : TOp K V → Option (Table K V)
  | .set b k v => t.set W b k v
  | .unset b k => t.unset W b k
  | .commit b => some (t.commit W b)
  | .clear => some t.clear
  | .reorg n => t.reorg W n

def run (W : Nat) (t : Table K V) : List (TOp K V) → Option (Table K V)
  | [] => some t
  | op :: ops =>
    match t.step W op with
    | some t' => run W t' ops
    | none => none

end Table

namespace TSpec
variable {K V : Type} [DecidableEq K] [DecidableEq V]

def run (s : TSpec K V) (ops : List (TOp K V)) : TSpec K V := ops.foldl step s

/-- Every prefix of the history is legal. -/
def legalRun (W : Nat) (s : TSpec K V) : List (TOp K V) → Prop
  | [] => True
  | op :: ops => legal W s op ∧ legalRun W (s.step op) ops

end TSpec
end Brc20
