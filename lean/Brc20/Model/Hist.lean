/-
Per-key block history: model of `BlockHistoryCacheData<V>` (src/db/cached_database/block_history_cache.rs).
The Rust `BTreeMap<u64, Option<V>>` is an ascending list of (block, value) pairs.
Block numbers are `Nat`; the Rust arithmetic `key + MAX_REORG_HISTORY_SIZE` cannot wrap for heights
below 2^64 - 11, which is the stated range of this model.
-/
namespace Brc20

/-- `MAX_REORG_HISTORY_SIZE` is a parameter of the model; `Gen/Constants.lean` pins it to the source. -/
abbrev Hist (V : Type) := List (Nat × Option V)

namespace Hist
variable {V : Type} [DecidableEq V]

/-- `BlockHistoryCacheData::new` -/
def new (init : Option V) : Hist V := [(0, init)]

def lastKey? (h : Hist V) : Option Nat := h.getLast?.map (·.1)

/-- `latest()`; on an empty history the Rust panics ("Cache is never empty") - see `Hist.NonEmpty`. -/
def latest (h : Hist V) : Option V :=
  match h.getLast? with
  | some (_, v) => v
  | none => none

/-- `BTreeMap::insert` for a key that is ≥ every stored key: replace the last entry or append. -/
def put (h : Hist V) (b : Nat) (v : Option V) : Hist V :=
  match h with
  | [] => [(b, v)]
  | [(b', v')] => if b' = b then [(b, v)] else [(b', v'), (b, v)]
  | e :: rest => e :: put rest b v

/-- `remove_old_values`: of the entries with `key + W ≤ b` (a prefix) keep only the last one. -/
def prune (W : Nat) (h : Hist V) (b : Nat) : Hist V :=
  match h with
  | e₁ :: e₂ :: rest => if e₂.1 + W ≤ b then prune W (e₂ :: rest) b else e₁ :: e₂ :: rest
  | h => h

/-- `set`; `none` is the panic "Block number must be greater than or equal to the latest block number". -/
def set (W : Nat) (h : Hist V) (b : Nat) (v : V) : Option (Hist V) :=
  match lastKey? h with
  | some l => if b < l then none else
      if latest h = some v then some h else some (prune W (put h b (some v)) b)
  | none => some (prune W (put h b (some v)) b)

/-- `unset` -/
def unset (W : Nat) (h : Hist V) (b : Nat) : Option (Hist V) :=
  match lastKey? h with
  | some l => if b < l then none else
      if (latest h).isNone then some h else some (prune W (put h b none) b)
  | none => some h

/-- `reorg`; `none` is the panic "Reorg too deep". -/
def reorg (h : Hist V) (n : Nat) : Option (Hist V) :=
  let h' := h.filter (fun e => decide (e.1 ≤ n))
  if h'.isEmpty then none else some h'

/-- `is_old` -/
def isOld (W : Nat) (h : Hist V) (b : Nat) : Bool :=
  match lastKey? h with
  | some l => decide (l + W < b)
  | none => true

/-- The entry in force at the end of block `n`: the value of the greatest key ≤ n.
`none` = no entry at or below `n` (this is exactly when `reorg n` panics). -/
def valAt (h : Hist V) (n : Nat) : Option (Option V) :=
  match h with
  | [] => none
  | (b, v) :: rest => if b ≤ n then (match valAt rest n with | some x => some x | none => some v) else none

end Hist
end Brc20
