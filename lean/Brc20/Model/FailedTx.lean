/-
C16, third clause: "a transaction that runs out of [its allowance] fails without changing any state except, at most,
its sender's nonce".  The model does not execute code; it checks the *recorded* table writes of an indexer call whose
single EVM run failed (status 0: out of gas, revert, invalid opcode, refused by revm): none of them may touch the EVM
state tables (`account_memory`, `code`, `account`) except the sender's own account row (the nonce) and the coinbase
row (the zero address: revm touches it; it is rewritten with the value it has, or created as the empty account).
A recorded run that violates this is answered `model-reject:failed-tx-wrote-state` by the driver.
No imports beyond the model: part of the executable driver.
-/
import Brc20.Model.Node

namespace Brc20
namespace Node

def zeroAddr : String := "0000000000000000000000000000000000000000"

/-- `AccountInfoED` of an account that does not exist: balance 0, nonce 0, keccak256 of the empty code -/
def emptyAccountRow : String :=
  "00000000000000000000000000000000000000000000000000000000000000000000000000000000c5d2460186f7233c927e7db2dcc703c0e500b653ca82273b7bfad8045d85a470"

/-- a recorded write that a failed transaction may make -/
def harmlessWrite (n : Node) (caller : String) : Ev → Bool
  | .s tb _ key value =>
    if tb == TId.accountMemory.name || tb == TId.code.name then false
    else if tb == TId.account.name then
      key == caller ||
        (key == zeroAddr && (value == (n.t .account).latest key ||
          (value == some emptyAccountRow && (n.t .account).latest key == none)))
    else true
  | _ => true

/-- an indexer call with exactly one EVM run, which failed: every recorded write is harmless -/
def failedTxOk (n : Node) (evs : List Ev) : Bool :=
  match txRuns evs with
  | [(fs, _, false, _, _)] => evs.all (harmlessWrite n (field fs "caller"))
  | _ => true

end Node
end Brc20
