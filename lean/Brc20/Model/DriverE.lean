/-
Line-protocol driver for suite E (engine / RPC histories).
  <op> k=v ... ## <event> ## <event> ...
Answer: `<response class> | <state digest>`; the digest has the same layout as the harness's (`digest` in
harness/src/suite_e.rs): per table `name:n:fnv:n:fnv:n:fnv` over the canonical text of the value column, the
persisted histories and the in-memory histories; block tables; latest; max; block under construction.
-/
import Brc20.Model.Node
import Brc20.Model.Sim
import Brc20.Model.FailedTx
import Brc20.Model.Forks
import Brc20.Model.Logs

namespace Brc20.DriverE
open Brc20.Node

def fnv (s : String) : UInt64 :=
  s.toUTF8.foldl (fun h x => (h ^^^ x.toUInt64) * 0x100000001b3) 0xcbf29ce484222325

def sortStr (l : List String) : List String := l.mergeSort (fun a b => decide (a ≤ b))

def showHist (h : Hist String) : String :=
  "|".intercalate (h.map (fun e => toString e.1 ++ ":" ++ (match e.2 with | some v => v | none => "-")))

def colKV (m : AMap String String) : String :=
  let items := sortStr (m.map (fun p => p.1 ++ "=" ++ p.2))
  toString items.length ++ ":" ++ toString (fnv (",".intercalate items)).toNat

def colKH (m : AMap String (Hist String)) : String :=
  let items := sortStr (m.map (fun p => p.1 ++ "=" ++ showHist p.2))
  toString items.length ++ ":" ++ toString (fnv (",".intercalate items)).toNat

def colBlock (keysOnly : Bool) (m : AMap Nat String) : String :=
  let items := sortStr (m.map (fun p => if keysOnly then toString p.1 else toString p.1 ++ "=" ++ p.2))
  toString items.length ++ ":" ++ toString (fnv (",".intercalate items)).toNat

def digest (n : Node) : String :=
  let ts := allTIds.map (fun i => i.name ++ ":" ++ colKV (n.t i).db ++ ":" ++ colKH (n.t i).cdb ++ ":" ++ colKH (n.t i).cache)
  let bs := allBIds.map (fun i =>
    let keysOnly := i != BId.numberToHash
    i.name ++ ":" ++ colBlock keysOnly (n.b i).db ++ ":" ++ colBlock keysOnly (n.b i).cache)
  let latest := match n.latest with | some (h, x) => toString h ++ ":" ++ x | none => "-"
  let mx := match n.maxBlock with | some m => toString m | none => "-"
  let l := n.lbi
  " ".intercalate (ts ++ bs ++ ["latest=" ++ latest, "max=" ++ mx,
    "lbi=" ++ toString l.waiting ++ ":" ++ toString l.ts ++ ":" ++ l.hash ++ ":" ++ toString l.gasUsed ++ ":" ++ toString l.logIndex])

def kvs (ws : List String) : List (String × String) :=
  ws.filterMap (fun w => match w.splitOn "=" with
    | k :: v :: rest => some (k, "=".intercalate (v :: rest))
    | _ => none)

def parseEv (s : String) : Ev :=
  let ws := (s.trimAscii.toString.splitOn " ").filter (· ≠ "")
  match ws with
  | ["S", tb, st, k, v] => .s tb st.toNat! k (if v = "-" then none else some v)
  | "X" :: kind :: rest =>
    if kind = "dbcommit" then .other
    else
      let before := rest.takeWhile (· ≠ "|")
      let after := (rest.dropWhile (· ≠ "|")).drop 1
      let fs := kvs before
      match after with
      | "ok" :: more =>
        let r := kvs more
        .x kind fs true (field r "success" == "true") (field r "gas").toNat! (field r "logs").toNat!
      | _ => .x kind fs false false 0 0
  | _ => .other

/-- A read-only request (every `eth_*` / `debug_*` / `txpool_*` / `brc20_get*` query, `eth_call`, `eth_callMany`,
both estimates, `brc20_balance`): the node is returned as it was; recorded table writes, persistent writes,
committing runs or an entry into `DatabaseCommit` are refused, and so is a simulation environment that differs from
the one the next transaction will get. -/
def readStep (n : Node) (rawEvents : List String) (evs : List Ev) (ncalls : Nat := 0) : Node × Class :=
  let bad := rawEvents.any (fun e => e.startsWith "S " || e.startsWith "W " || e.startsWith "X dbcommit" || e.startsWith "X tx ")
  let simBad := (simRuns evs).any (fun fs => !(n.simEnvOk fs))
  let multiBad := !(n.simMultiOk ncalls (multiRuns evs))
  (n, if bad then .reject "read-wrote" else if simBad then .reject "sim-env"
      else if multiBad then .reject "simmulti-env" else .ok)

def strip0x (s : String) : String := if s.startsWith "0x" then (s.drop 2).toString else s

/-- `logsq`: the filter, every log the receipts hold (chain order, `block.tx.log@address/topic/...`), answered by
`Logs.getLogs` (stateless: the chain's logs arrive on the line). -/
def logsq (g : String → String) : String :=
  let optNat := fun (s : String) => if s == "-" then none else some s.toNat!
  let parseLog := fun (e : String) =>
    match e.splitOn "@" with
    | [idn, rest] =>
      let ps := rest.splitOn "/"
      let blk := ((idn.splitOn ".").headD "0").toNat!
      some (blk, idn, ({ address := ps.headD "", topics := (ps.drop 1).filter (· ≠ "") } : Logs.Log))
    | _ => none
  let all := if g "all" == "-" then [] else ((g "all").splitOn ";").filterMap parseLog
  let pos := fun (p : String) =>
    if p == "-" then Logs.Pos.any
    else if p.startsWith "[" then
      Logs.Pos.alts ((((p.drop 1).toString.dropEnd 1).toString.splitOn "|").map some)
    else Logs.Pos.one p
  let topics := if g "topics" == "none" then none else some (((g "topics").splitOn ",").map pos)
  let addr := if g "addr" == "-" then none else some (g "addr")
  -- identities travel with the logs: filter on the pair, print the identity
  let inRange := fun (f t : Nat) => all.filter (fun (e : Nat × String × Logs.Log) => decide (f ≤ e.1) && decide (e.1 ≤ t))
  let latest := (g "latest").toNat!
  match Logs.getLogs latest (optNat (g "from")) (optNat (g "to")) addr topics (fun f t => (inRange f t).map (·.2.2)) with
  | none => "err"
  | some ls =>
    let (f, t) := Logs.resolveRange latest (optNat (g "from")) (optNat (g "to"))
    let ids := ((inRange f t).filter (fun e => Logs.logMatches addr topics e.2.2)).map (·.2.1)
    if ids.length = ls.length then "ok " ++ ",".intercalate ids else "model-inconsistent"

/-- The transition function with the answer still structured: `.inl c` is the response class of a call (`step` prints
it followed by the state digest, or `panic` alone), `.inr s` is an answer that is printed as it is (`case`, `logsq`,
`pbound`, an unknown operation word). `step` is this function followed by the printing; the properties that speak
about the class of an answer (C05: an error answer leaves the node as it was) are stated on it, so that they do not
have to parse the answer text. -/
def stepCore (n : Node) (line : String) : Node × (Class ⊕ String) :=
  let parts := line.splitOn " ## "
  let head := (parts.headD "").trimAscii.toString
  let evs := (parts.drop 1).map parseEv
  let ws := (head.splitOn " ").filter (· ≠ "")
  let f := kvs ws
  let g := fun k => field f k
  let num := fun k => (g k).toNat!
  let fin := fun (r : Node × Class) => ((r.1, Sum.inl r.2) : Node × (Class ⊕ String))
  match ws.headD "" with
  | "case" => ({}, .inr "case")
  | "init" => fin (n.initialise (strip0x (g "hash")) (num "ts") (num "height") evs)
  | "mine" => fin (if num "count" = 0 ∧ n.lbi.waiting = 0 then (n, .ok) else n.mine (num "count") (num "ts") evs)
  | "deploy" | "call" | "deposit" | "withdraw" =>
    let op := ws.headD ""
    let dataFirst := op == "deploy" || op == "call"
    let selErr := dataFirst && (g "sel" == "both" || g "sel" == "none")
    let pkErr := g "pkok" == "false"
    -- deploy/call: the data selection is checked before the pkscript; deposit/withdraw have no data fields
    if selErr then fin (n, .err "data")
    else if pkErr then fin (n, .err "param")
    -- C16: a call whose single EVM run failed may not have written EVM state (Model/FailedTx.lean)
    else if !(n.failedTxOk evs) then fin (n, .reject "failed-tx-wrote-state")
    else fin (n.addTxs (num "ts") (strip0x (g "hash")) (num "idx")
      (if dataFirst then some (strip0x (g "txid")) else some zeroHash) evs (some 1))
  | "transact" =>
    if g "sel" == "both" || g "sel" == "none" then fin (n, .err "data")
    else
      let dec := if g "decode" == "fail" then RawDecode.fail
        else if g "rchain" == "wrong" then RawDecode.wrongChain
        else RawDecode.ok (g "from") (num "rnonce")
      fin (n.addRawTx (num "ts") (strip0x (g "hash")) (num "idx") (strip0x (g "txid")) dec evs)
  | "fin" => fin (n.finaliseOne (num "ts") (strip0x (g "hash")) (num "count") evs)
  | "commit" => fin n.commit
  | "clear" => fin n.clear
  | "reopen" => fin (n.reopen, .ok)
  | "reorg" => fin (n.reorg (num "n"))
  | "read" => fin (readStep n (parts.drop 1) evs (num "ncalls"))
  | "logsq" => (n, .inr (logsq g))
  | "pbound" =>
    -- Prague boundary scenario (C19): what the probe read from the current-txid helper; activation heights pinned to
    -- Gen by `C19.fork_heights_pinned`; the parking block (`park=`) is deliberately not consulted
    if g "kind" == "collide" then
      (n, .inr ("seen=" ++ Forks.txidSeenColliding 923369 275000 929000 0 (Forks.netOf (g "net")) (num "park") (num "exec")
        (g "txid") (g "other") zeroHash))
    else
      (n, .inr ("seen=" ++ Forks.txidSeen 923369 275000 (Forks.netOf (g "net")) (num "exec") (g "txid") zeroHash))
  | _ => (n, .inr "bad-op")

/-- the text of an answer: a response class is followed by the digest of the node after the call; a panic ends the
process: the answer is the panic itself, no state is reported -/
def showAnswer (node : Node) : Class ⊕ String → String
  | .inl c => if c = .panic then "panic" else c.show ++ " | " ++ digest node
  | .inr s => s

def step (n : Node) (line : String) : Node × String :=
  let r := stepCore n line
  (r.1, showAnswer r.1 r.2)

end Brc20.DriverE
