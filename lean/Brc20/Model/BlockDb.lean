/-
Block-keyed table: model of `BlockDatabase<V>` (src/db/database/block_database.rs).
`db` is the RocksDB column (u64 big-endian keys, so byte order = numeric order), `cache` the in-memory `BTreeMap`.
-/
import Brc20.Model.AMap

namespace Brc20

structure BlockDb (V : Type) where
  db : AMap Nat V := []
  cache : AMap Nat V := []

inductive BWrite (V : Type) where
  | put (n : Nat) (v : V)
  | del (n : Nat)
  | flush

namespace BlockDb
variable {V : Type}

def get (t : BlockDb V) (n : Nat) : Option V :=
  match t.cache.get? n with
  | some v => some v
  | none => t.db.get? n

def set (t : BlockDb V) (n : Nat) (v : V) : BlockDb V :=
  { t with cache := t.cache.insert n v }

def maxKey? (m : AMap Nat V) : Option Nat :=
  m.foldl (fun acc p => match acc with | none => some p.1 | some a => some (max a p.1)) none

def optMax : Option Nat → Option Nat → Option Nat
  | none, b => b
  | a, none => a
  | some a, some b => some (max a b)

/-- `last_key` -/
def lastKey (t : BlockDb V) : Option Nat := optMax (maxKey? t.db) (maxKey? t.cache)

/-- Ascending iteration of the `BTreeMap` cache. -/
def sortedCache (t : BlockDb V) : List (Nat × V) :=
  t.cache.foldr (fun p acc =>
    let rec ins : List (Nat × V) → List (Nat × V)
      | [] => [p]
      | q :: rest => if p.1 < q.1 then p :: q :: rest else q :: ins rest
    ins acc) []

/-- Persistent writes of `commit()`: every cached row in ascending order, then a flush. The cache is kept. -/
def commitWrites (t : BlockDb V) : List (BWrite V) :=
  (t.sortedCache.map (fun p => BWrite.put p.1 p.2)) ++ [BWrite.flush]

def applyWrite (t : BlockDb V) : BWrite V → BlockDb V
  | .put n v => { t with db := t.db.insert n v }
  | .del n => { t with db := t.db.erase n }
  | .flush => t

def applyWrites (t : BlockDb V) (ws : List (BWrite V)) : BlockDb V := ws.foldl applyWrite t

def commit (t : BlockDb V) : BlockDb V := t.applyWrites t.commitWrites

def clear (t : BlockDb V) : BlockDb V := { t with cache := [] }

/-- `reorg(n)`: delete rows `n+1 ..= last_key` from the column and from the cache. -/
def reorg (t : BlockDb V) (n : Nat) : BlockDb V :=
  match t.lastKey with
  | none => t
  | some e =>
    let doomed := (List.range (e - n)).map (fun i => n + 1 + i)
    { db := doomed.foldl (fun m k => m.erase k) t.db,
      cache := doomed.foldl (fun m k => m.erase k) t.cache }

end BlockDb
end Brc20
