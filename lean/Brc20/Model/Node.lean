/-
The engine's bookkeeping: model of `Brc20ProgDatabase` (table plumbing, heights, commit / clear / reorg:
src/db/brc20_prog_database.rs) and of the control flow of `BRC20ProgEngine` (block under construction, protocol
checks, raw-transaction classification and pending-pool drain, finalise, mine, commit, clear, reorg, initialise:
src/engine/engine.rs), after the `fix:` commits recorded in known_findings.json.

The EVM is a parameter: what a run did arrives as recorded events (`Ev`): the table writes the database layer
issued (`S table stamp key value`) and the outcome of each run (`X`).  The model decides the response class,
checks the *stamping discipline* (every write of an op carries the height being built) and the environment handed
to the EVM, applies the writes to its own versioned tables and updates heights / block-under-construction itself.
Keys and values are lower-case hex of the encoded bytes.
-/
import Brc20.Model.Table
import Brc20.Model.BlockDb

namespace Brc20

inductive TId where
  | accountMemory | code | account | numIdx | txReceipt | tx | pending | pendingTxid | trace | inscr | contractInscr
  | hashToNumber
  deriving DecidableEq, Repr

inductive BId where
  | block | rawBlock | numberToHash
  deriving DecidableEq, Repr

/-- dump order of `verif_dump_tables` (= declaration order of the fields) -/
def allTIds : List TId :=
  [.accountMemory, .code, .account, .numIdx, .txReceipt, .tx, .pending, .pendingTxid, .trace, .inscr, .contractInscr,
   .hashToNumber]

def allBIds : List BId := [.block, .rawBlock, .numberToHash]

/-- directory names given in `Brc20ProgDatabase::new` (they are what the hooks report) -/
def TId.name : TId → String
  | .accountMemory => "account_memory"
  | .code => "code"
  | .account => "account"
  | .numIdx => "number_and_index_to_tx_hash"
  | .txReceipt => "tx_receipt"
  | .tx => "tx"
  | .pending => "account_and_nonce_to_tx_hash"
  | .pendingTxid => "pending_tx_hash_to_tx_id"
  | .trace => "tx_trace"
  | .inscr => "inscription_id_to_tx_hash"
  | .contractInscr => "contract_address_to_inscription_id"
  | .hashToNumber => "block_hash_to_number"

def BId.name : BId → String
  | .block => "block_number_to_block"
  | .rawBlock => "block_number_to_raw_block"
  | .numberToHash => "block_number_to_hash"

def TId.ofName (s : String) : Option TId := allTIds.find? (fun t => t.name == s)
def BId.ofName (s : String) : Option BId := allBIds.find? (fun t => t.name == s)

/-- `LastBlockInfo` without the wall-clock fields -/
structure Lbi where
  waiting : Nat := 0
  ts : Nat := 0
  hash : String := "0000000000000000000000000000000000000000000000000000000000000000"
  gasUsed : Nat := 0
  logIndex : Nat := 0
  deriving DecidableEq, Repr

structure Node where
  t : TId → Table String String := fun _ => {}
  b : BId → BlockDb String := fun _ => {}
  maxBlock : Option Nat := none                 -- `max_block_number` row of the global column (written through)
  latest : Option (Nat × String) := none        -- `latest_block_number` (in memory only)
  lbi : Lbi := {}

namespace Node

def W : Nat := 10          -- MAX_REORG_HISTORY_SIZE     (pinned to Gen by Props)
def FUTURE_NONCES : Nat := 10
def FUTURE_BLOCKS : Nat := 10
def U64MAX : Nat := 2 ^ 64 - 1

def setT (n : Node) (i : TId) (x : Table String String) : Node := { n with t := fun j => if j = i then x else n.t j }
def setB (n : Node) (i : BId) (x : BlockDb String) : Node := { n with b := fun j => if j = i then x else n.b j }

def zeroHash : String := "0000000000000000000000000000000000000000000000000000000000000000"

def hexDigitChar (n : Nat) : Char := if n < 10 then Char.ofNat (n + 48) else Char.ofNat (n + 87)

/-- fixed-width lower-case hex of a number -/
def hexN (width : Nat) (n : Nat) : String :=
  let rec go : Nat → Nat → List Char → List Char
    | 0, _, acc => acc
    | w + 1, m, acc => go w (m / 16) (hexDigitChar (m % 16) :: acc)
  String.ofList (go width n [])

def hexVal (s : String) : Nat :=
  s.toList.foldl (fun acc c =>
    let d := if '0' ≤ c && c ≤ '9' then c.toNat - 48 else if 'a' ≤ c && c ≤ 'f' then c.toNat - 87 else 0
    acc * 16 + d) 0

/-- `generate_block_hash`: block number + 1 as a 32-byte big-endian value -/
def generatedHash (bn : Nat) : String := hexN 64 (bn + 1)

def normHash (h : String) (bn : Nat) : String := if h = zeroHash then generatedHash bn else h

/-- `Brc20ProgDatabase::get_latest_block_height` -/
def latestHeight (n : Node) : Nat :=
  match n.latest with
  | some (h, _) => h
  | none => ((n.b .numberToHash).lastKey).getD 0

/-- `Brc20ProgDatabase::get_next_block_height` (empty database: 0) -/
def nextHeight (n : Node) : Nat :=
  match n.latest with
  | some (h, _) => h + 1
  | none =>
    match (n.b .numberToHash).lastKey with
    | some k => k + 1
    | none => 0

def blockHashAt (n : Node) (k : Nat) : Option String := (n.b .numberToHash).get k
def blockNumberOf (n : Node) (hash : String) : Option String := (n.t .hashToNumber).latest hash

/-- account nonce from the `account` row (`AccountInfoED`: balance 32 bytes, nonce 8 bytes, code hash 32 bytes) -/
def accountNonce (n : Node) (addr : String) : Nat :=
  match (n.t .account).latest addr with
  | some v => hexVal ((v.drop 64).take 16).toString
  | none => 0

/-- block number of a parked transaction (`TxED`: hash 32, nonce 8, block_hash 32, then `Option<U64ED>`) -/
def parkedBlock (v : String) : Option Nat :=
  if ((v.drop 144).take 2).toString = "01" then some (hexVal ((v.drop 146).take 16).toString) else none

inductive Class where
  | ok
  | err (kind : String)
  | panic
  | reject (why : String)      -- the recorded events do not fit the model (discipline / environment broken)
  deriving DecidableEq, Repr

def Class.show : Class → String
  | .ok => "ok"
  | .err k => "err:" ++ k
  | .panic => "panic"
  | .reject w => "model-reject:" ++ w

/-- A recorded event. -/
inductive Ev where
  | s (table : String) (stamp : Nat) (key : String) (value : Option String)
  | x (kind : String) (fields : List (String × String)) (okRun : Bool) (success : Bool) (gas : Nat) (logs : Nat)
  | other

/-- `require_block_does_not_exist` -/
def blockExists (n : Node) (hash : String) (bn : Nat) : Bool :=
  (n.blockHashAt bn).isSome || (n.blockNumberOf hash).isSome

/-- `validate_next_tx` -/
def validateNextTx (n : Node) (idx : Nat) (hash : String) (bn : Nat) (ts : Nat) : Option String :=
  if n.lbi.waiting ≠ idx then some "idx"
  else if n.lbi.waiting ≠ 0 ∧ n.lbi.ts ≠ ts then some "ts"
  else if n.lbi.waiting ≠ 0 ∧ n.lbi.hash ≠ hash then some "hash"
  else if n.blockExists hash bn then some "exists"
  else none

/-- Apply one recorded table write; `none` = the write does not carry the expected stamp, names an unknown table,
panics inside the history (stale stamp), or is a block-table row filed under a number other than its stamp
(`BlockDatabase::set(block_number, ..)` is keyed by the number it is stamped with). -/
def applyS (n : Node) (expect : Nat) (table : String) (stamp : Nat) (key : String) (value : Option String) : Option Node :=
  if stamp ≠ expect then none
  else
    match TId.ofName table with
    | some i =>
      match value with
      | some v => ((n.t i).set W stamp key v).map (n.setT i)
      | none => ((n.t i).unset W stamp key).map (n.setT i)
    | none =>
      match BId.ofName table, value with
      | some i, some v => if hexVal key = stamp then some (n.setB i ((n.b i).set (hexVal key) v)) else none
      | _, _ => none

def applyEvents (n : Node) (expect : Nat) : List Ev → Option Node
  | [] => some n
  | .s tb st k v :: rest =>
    match n.applyS expect tb st k v with
    | some n' => applyEvents n' expect rest
    | none => none
  | _ :: rest => applyEvents n expect rest

def field (fs : List (String × String)) (k : String) : String :=
  match fs.find? (fun p => p.1 == k) with
  | some p => p.2
  | none => ""

/-- the block gas limit every EVM is built with (`get_evm(.., None, ..)`: `u64::MAX`), transactions and simulations
alike (GASLIMIT is not among the reads C17 excludes) -/
def blockGasLimit : String := "18446744073709551615"

/-- Environment of a committing run: block number = the height being built, the supplied timestamp, the block hash
as randomness, zero fees, the Bitcoin txid supplied with that transaction. -/
def envOk (fs : List (String × String)) (bn ts : Nat) (hash : String) (txid : Option String) : Bool :=
  field fs "number" == toString bn && field fs "ts" == toString ts && field fs "prevrandao" == hash &&
  field fs "basefee" == "0" && field fs "gasprice" == "0" && field fs "value" == "0" &&
  field fs "coinbase" == "0000000000000000000000000000000000000000" &&
  (match txid with | some t => field fs "txid" == t | none => true) &&
  field fs "blockgaslimit" == blockGasLimit

/-- Environment of a simulation (`eth_call`, `eth_estimateGas`, `brc20_balance`) made without an explicit block:
the height that the next transaction will be built at, the caller's account nonce, the same zero fees. -/
def simEnvOk (n : Node) (fs : List (String × String)) : Bool :=
  field fs "number" == toString n.nextHeight && field fs "nonce" == toString (n.accountNonce (field fs "caller")) &&
  field fs "basefee" == "0" && field fs "gasprice" == "0" && field fs "value" == "0" &&
  field fs "coinbase" == "0000000000000000000000000000000000000000" &&
  field fs "blockgaslimit" == blockGasLimit

def simRuns (evs : List Ev) : List (List (String × String)) :=
  evs.filterMap (fun e => match e with
    | .x "sim" fs _ _ _ _ => some fs
    | _ => none)

def txRuns (evs : List Ev) : List (List (String × String) × Bool × Bool × Nat × Nat) :=
  evs.filterMap (fun e => match e with
    | .x "tx" fs okRun succ gas logs => some (fs, okRun, succ, gas, logs)
    | _ => none)

/-- after the runs of an op: transactions appended, gas and log counters advanced (`checked_add`, else unchanged) -/
def bumpLbi (l : Lbi) (runs : List (List (String × String) × Bool × Bool × Nat × Nat)) : Lbi :=
  runs.foldl (fun l r =>
    let gas := if r.2.1 then r.2.2.2.1 else 0
    let logs := if r.2.1 then r.2.2.2.2 else 0
    { l with waiting := l.waiting + 1,
             gasUsed := if l.gasUsed + gas ≤ U64MAX then l.gasUsed + gas else l.gasUsed,
             logIndex := l.logIndex + logs }) l

/-- no recorded write of the list goes to a block-keyed table (`block_number_to_block`, `block_number_to_raw_block`,
`block_number_to_hash`): only `finalise_block` calls `set_block` / `set_raw_block` / `set_block_hash` -/
def noBlockWrites (evs : List Ev) : Bool :=
  evs.all (fun e => match e with
    | .s tb _ _ _ => (BId.ofName tb).isNone
    | _ => true)

/-- no recorded write of the list SETS a row of `account_and_nonce_to_tx_hash`: only `set_pending_tx` (the parked path
of `add_raw_tx_to_block`) does; a transaction (its drain loop) and `finalise_block` (`clear_txpool`) only call
`remove_pending_tx`, which unsets -/
def noPendingSet (evs : List Ev) : Bool :=
  evs.all (fun e => match e with
    | .s tb _ _ (some _) => tb != TId.pending.name
    | _ => true)

/-- `add_tx_to_block` for one or more transactions appended by the same call (a drain appends several). -/
def addTxs (n : Node) (ts : Nat) (hash0 : String) (idx : Nat) (txid : Option String) (evs : List Ev)
    (expectRuns : Option Nat) : Node × Class :=
  let bn := n.nextHeight
  let hash := normHash hash0 bn
  match n.validateNextTx idx hash bn ts with
  | some e => (n, .err e)
  | none =>
    let runs := txRuns evs
    if runs.isEmpty then (n, .reject "no-evm-run")
    else if (match expectRuns with | some k => decide (runs.length ≠ k) | none => false) then (n, .reject "run-count")
    else if !(runs.all (fun r => envOk r.1 bn ts hash none)) then (n, .reject "env")
    else if !(match runs.head? with | some r => envOk r.1 bn ts hash txid | none => true) then (n, .reject "txid")
    else if !noBlockWrites evs then (n, .reject "tx-wrote-block-table")
    else if !noPendingSet evs then (n, .reject "tx-set-pending")
    else
      let l0 : Lbi := if n.lbi.waiting = 0 then { waiting := 0, ts := ts, hash := hash, gasUsed := 0, logIndex := 0 } else n.lbi
      match applyEvents n bn evs with
      | none => (n, .reject "stamp")
      | some n' => ({ n' with lbi := bumpLbi l0 runs }, .ok)

/-- how many waiting successors the drain loop executes and removes, from the pending table:
(executed, visited) for nonces `from+1, from+2, ...` -/
def drainPlan (n : Node) (sender : String) (bn : Nat) : Nat → Nat → Nat × Nat
  | 0, _ => (0, 0)
  | fuel + 1, nonce =>
    match (n.t .pending).latest (sender ++ hexN 16 nonce) with
    | none => (0, 0)
    | some v =>
      let (e, vis) := drainPlan n sender bn fuel (nonce + 1)
      let live := match parkedBlock v with | some pb => decide (FUTURE_BLOCKS + pb > bn) | none => false
      ((if live then 1 else 0) + e, vis + 1)

/-- the pending-pool tables: the only tables `set_pending_tx` writes -/
def poolTables : List TId := [.pending, .pendingTxid]

/-- every recorded table write of the list goes to a pending-pool table -/
def poolOnly (evs : List Ev) : Bool :=
  evs.all (fun e => match e with
    | .s tb _ _ _ => poolTables.any (fun i => tb == i.name)
    | _ => true)

/-- the recorded table writes of a list (table, key, value), without their stamps -/
def tableWrites (evs : List Ev) : List (String × String × Option String) :=
  evs.filterMap (fun e => match e with | .s tb _ k v => some (tb, k, v) | _ => none)

/-- the recorded table writes of a parked submission are those of ONE `set_pending_tx(sender, nonce, tx, txid)`: one
`set` of the row of `account_and_nonce_to_tx_hash` keyed by `(sender, nonce)`, whose transaction carries `Some(bn)` as
its block number (`TxED::new(.., block_number, ..)` with the height being built), and one `set` of a row of
`pending_tx_hash_to_tx_id`; nothing else (the order of the two is left free) -/
def parkedShape (sender : String) (nonce bn : Nat) (evs : List Ev) : Bool :=
  match tableWrites evs with
  | [(t1, k1, some v1), (t2, k2, some v2)] =>
    (t1 == TId.pending.name && t2 == TId.pendingTxid.name && k1 == sender ++ hexN 16 nonce &&
      parkedBlock v1 == some bn) ||
    (t1 == TId.pendingTxid.name && t2 == TId.pending.name && k2 == sender ++ hexN 16 nonce &&
      parkedBlock v2 == some bn)
  | _ => false

/-- none of the nonces `start, start+1, .., start+visited-1` of `sender` has a row in the pending table -/
def drainGone (n : Node) (sender : String) (start visited : Nat) : Bool :=
  (List.range visited).all (fun k => ((n.t .pending).latest (sender ++ hexN 16 (start + k))).isNone)

/-- The drain loop of `add_raw_tx_to_block` calls `remove_pending_tx(sender, nonce)` for EVERY entry it visits -
executed, or skipped because it was parked `MAX_FUTURE_TRANSACTION_BLOCKS` or more blocks ago (or carries no block
number) - so after an accepted call no visited nonce has a row in `account_and_nonce_to_tx_hash` any more.
(`remove_pending_tx` unsets that table only: the companion row in `pending_tx_hash_to_tx_id` is never removed, so
nothing is required of it.) `r` is the answer of `addTxs` for the same events. -/
def drainCheck (n : Node) (sender : String) (start visited : Nat) (r : Node × Class) : Node × Class :=
  match r with
  | (n', .ok) => if drainGone n' sender start visited then (n', .ok) else (n, .reject "drain-kept")
  | r => r

inductive RawDecode where
  | fail
  | wrongChain
  | ok (sender : String) (nonce : Nat)

/-- `add_raw_tx_to_block` -/
def addRawTx (n : Node) (ts : Nat) (hash0 : String) (idx : Nat) (txid : String) (dec : RawDecode) (evs : List Ev) :
    Node × Class :=
  match dec with
  | .fail => (n, .err "decode")
  | .wrongChain => if (txRuns evs).isEmpty then (n, .ok) else (n, .reject "ran-wrong-chain")
  | .ok sender nonce =>
    let acct := n.accountNonce sender
    let bn := n.nextHeight
    if nonce ≠ acct then
      if nonce > acct ∧ nonce < acct + FUTURE_NONCES then
        -- parked: the two writes of `set_pending_tx`, stamped with the height being built (which is also the block
        -- number stored in the row), no run, block info untouched
        if !(txRuns evs).isEmpty then (n, .reject "parked-ran")
        else if !poolOnly evs then (n, .reject "parked-wrote")
        else if !parkedShape sender nonce bn evs then (n, .reject "parked-shape")
        else match applyEvents n bn evs with
          | none => (n, .reject "stamp")
          | some n' => (n', .ok)
      else if evs.any (fun e => match e with | .s .. => true | .x "tx" .. => true | _ => false) then (n, .reject "ignored-wrote")
      else (n, .ok)
    else
      let plan := drainPlan n sender bn FUTURE_NONCES (acct + 1)
      drainCheck n sender (acct + 1) plan.2 (addTxs n ts hash0 idx (some txid) evs (some (1 + plan.1)))

def resetLbi (n : Node) : Node := { n with lbi := {} }

/-- the recorded writes a `finalise_block` of the block with hash `hash` may contain: rows of the block-keyed tables
(`set_block`, `set_raw_block`, `set_block_hash`; `applyS` files them under the number being finalised), the
`block_hash_to_number` row keyed by this block's hash (`set_block_hash`), pending-pool entries (`clear_txpool`) -/
def finOnly (hash : String) (evs : List Ev) : Bool :=
  evs.all (fun e => match e with
    | .s tb _ k _ => (BId.ofName tb).isSome || (tb == TId.hashToNumber.name && k == hash) ||
        poolTables.any (fun i => tb == i.name)
    | _ => true)

/-- `clear_txpool(bn)`, called by `finalise_block` of block `bn`: scans all readable rows of
`account_and_nonce_to_tx_hash` and calls `remove_pending_tx` for every row whose transaction carries no block number
or was parked in a block `pb` with `pb + MAX_FUTURE_TRANSACTION_BLOCKS <= bn`. So afterwards every readable row was
parked in a block `pb` with `pb + MAX_FUTURE_TRANSACTION_BLOCKS > bn`. (A readable row has its key in the value
column or in the cache.) -/
def poolFreshAt (n : Node) (bn : Nat) : Bool :=
  ((n.t .pending).db.keys ++ (n.t .pending).cache.keys).all (fun k =>
    match (n.t .pending).latest k with
    | none => true
    | some v =>
      match parkedBlock v with
      | some pb => decide (pb + FUTURE_BLOCKS > bn)
      | none => false)

/-- `finalise_block` (one block): the recorded writes are the block rows, expired pool entries, the hash rows. -/
def finaliseOne (n : Node) (ts : Nat) (hash0 : String) (count : Nat) (evs : List Ev) : Node × Class :=
  let bn := n.nextHeight
  let hash := normHash hash0 bn
  match n.validateNextTx count hash bn ts with
  | some e => (n, .err e)
  | none =>
    if !finOnly hash evs then (n, .reject "fin-wrote")
    else if !noPendingSet evs then (n, .reject "fin-set-pending")
    else
    match applyEvents n bn evs with
    | none => (n, .reject "stamp")
    | some n' =>
      let latest' := match n'.latest with
        | none => some (bn, hash)
        | some (h, x) => if bn > h then some (bn, hash) else some (h, x)
      let max' := match n'.maxBlock with
        | none => some bn
        | some m => some (max m bn)
      -- the rows the finalise must have written
      if (n'.b .numberToHash).get bn ≠ some hash then (n, .reject "no-hash-row")
      else if ((n'.b .block).get bn).isNone ∨ ((n'.b .rawBlock).get bn).isNone then (n, .reject "no-block-row")
      else if (n'.t .hashToNumber).latest hash ≠ some (hexN 16 bn) then (n, .reject "no-hash-index")
      -- `clear_txpool`: no entry parked 10 or more blocks ago is left in the pool
      else if !poolFreshAt n' bn then (n, .reject "expired-kept")
      else ({ n' with latest := latest', maxBlock := max', lbi := {} }, .ok)

def stampOf : Ev → Option Nat
  | .s _ st _ _ => some st
  | _ => none

/-- `mine_blocks`: finalise `count` empty blocks with generated hashes; the events of each block are those
stamped with its number. Stops at the first refusal (blocks finalised before it stay). -/
def mineLoop (n : Node) (ts : Nat) (evs : List Ev) : Nat → Node × Class
  | 0 => (n, .ok)
  | k + 1 =>
    let bn := n.nextHeight
    let mine := evs.filter (fun e => stampOf e == some bn)
    match finaliseOne n ts zeroHash 0 mine with
    | (n', .ok) => mineLoop n' ts evs k
    | (n', c) => (n', c)

/-- one of the hashes `mine` would generate is already in use (a block submitted with that explicit hash) -/
def mineClash (n : Node) (count : Nat) : Bool :=
  (List.range count).any (fun k => n.blockExists (generatedHash (n.nextHeight + k)) (n.nextHeight + k))

def mine (n : Node) (count ts : Nat) (evs : List Ev) : Node × Class :=
  if n.lbi.waiting ≠ 0 then (n, .err "waiting")
  else if n.mineClash count then (n, .err "exists")
  else mineLoop n ts evs count

/-- `commit_changes`: block tables, then every versioned table at the next height, then `clear_caches`. -/
def commitAll (n : Node) : Node :=
  let nb := n.nextHeight
  { n with t := fun i => (n.t i).commit W nb,
           b := fun i => ((n.b i).commit).clear,
           latest := none }

def commit (n : Node) : Node × Class :=
  if n.lbi.waiting ≠ 0 then (n, .err "waiting") else (n.commitAll, .ok)

/-- `clear_caches` at engine level: also forgets the block under construction. -/
def clear (n : Node) : Node × Class :=
  ({ n with t := fun i => (n.t i).clear, b := fun i => (n.b i).clear, latest := none, lbi := {} }, .ok)

/-- stop + reopen the directory -/
def reopen (n : Node) : Node := (n.clear).1

def reorgTables (n : Node) (target : Nat) : List TId → Option Node
  | [] => some n
  | i :: rest =>
    match (n.t i).reorg W target with
    | some t' => reorgTables (n.setT i t') target rest
    | none => none

/-- `BRC20ProgEngine::reorg` + `Brc20ProgDatabase::reorg` -/
def reorg (n : Node) (target : Nat) : Node × Class :=
  if n.lbi.waiting ≠ 0 then (n, .err "waiting")
  else
    let h := n.latestHeight
    if target > h then (n, .err "above")
    else if h - target > W then (n, .err "deep")
    else if (n.maxBlock.getD 0) > W + target then (n, .err "deep")
    else
      match reorgTables n target allTIds with
      | none => (n, .panic)
      | some n1 =>
        let n2 : Node := { n1 with b := fun i => (n1.b i).reorg target }
        (n2.commitAll, .ok)

/-- `initialise`: existing genesis -> compare hashes; otherwise the genesis must be the next block; then the
controller deployment (transaction 0) and the finalise of that block, in one call. -/
def initialise (n : Node) (hash0 : String) (ts height : Nat) (evs : List Ev) : Node × Class :=
  let hash := normHash hash0 height
  match (n.b .block).get height with
  | some _ => if n.blockHashAt height = some hash then (n, .ok) else (n, .err "genesis")
  | none =>
    if height ≠ n.nextHeight then (n, .err "height")
    else
      -- the deployment's writes come first; the finalise writes are the block rows / hash index of that height
      let isFin := fun (e : Ev) => match e with
        | .s tb _ _ _ => (BId.ofName tb).isSome || tb == TId.hashToNumber.name
        | _ => false
      match addTxs n ts hash 0 (some zeroHash) (evs.filter (fun e => !isFin e)) (some 1) with
      | (n1, .ok) => finaliseOne n1 ts hash 1 (evs.filter isFin)
      | (n1, c) => (n1, c)

end Node
end Brc20
