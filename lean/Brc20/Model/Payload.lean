/-
Inscription payloads: model of `decode_bytes_from_inscription_data`, `Base64Bytes::from_bytes`, `select_bytes`
(src/api/types.rs), of the `base64` crate's STANDARD_NO_PAD engine (strict: no padding, no trailing bits) and of the
`nada` crate (encoder.rs / decoder.rs / decode_with_limit), transcribed from their sources.
zstd is a parameter (`zdec`): the harness supplies its result on the line.
-/
import Brc20.Model.Codec

namespace Brc20.Payload

/-! ### base64, standard alphabet -/

def b64Char (n : Nat) : Char :=
  if n < 26 then Char.ofNat (65 + n)
  else if n < 52 then Char.ofNat (97 + (n - 26))
  else if n < 62 then Char.ofNat (48 + (n - 52))
  else if n = 62 then '+' else '/'

def b64Val (c : Char) : Option Nat :=
  let n := c.toNat
  if 65 ≤ n ∧ n ≤ 90 then some (n - 65)
  else if 97 ≤ n ∧ n ≤ 122 then some (n - 97 + 26)
  else if 48 ≤ n ∧ n ≤ 57 then some (n - 48 + 52)
  else if c = '+' then some 62
  else if c = '/' then some 63
  else none

/-- Encode without padding. -/
def b64Encode : Bytes → List Char
  | [] => []
  | [a] =>
    let n := a.toNat
    [b64Char (n / 4), b64Char (n % 4 * 16)]
  | [a, b] =>
    let n := a.toNat * 256 + b.toNat
    [b64Char (n / 1024), b64Char (n / 16 % 64), b64Char (n % 16 * 4)]
  | a :: b :: c :: rest =>
    let n := a.toNat * 65536 + b.toNat * 256 + c.toNat
    b64Char (n / 262144) :: b64Char (n / 4096 % 64) :: b64Char (n / 64 % 64) :: b64Char (n % 64) :: b64Encode rest

/-- Strict decode: every character in the alphabet, no `=`, a final group of 2 or 3 characters must have zero
unused bits, a final group of 1 character is an error. -/
def b64Decode : List Char → Option Bytes
  | [] => some []
  | [_] => none
  | [c1, c2] =>
    match b64Val c1, b64Val c2 with
    | some s1, some s2 => if s2 % 16 = 0 then some [UInt8.ofNat (s1 * 4 + s2 / 16)] else none
    | _, _ => none
  | [c1, c2, c3] =>
    match b64Val c1, b64Val c2, b64Val c3 with
    | some s1, some s2, some s3 =>
      if s3 % 4 = 0 then
        let n := s1 * 1024 + s2 * 16 + s3 / 4
        some [UInt8.ofNat (n / 256), UInt8.ofNat (n % 256)]
      else none
    | _, _, _ => none
  | c1 :: c2 :: c3 :: c4 :: rest =>
    match b64Val c1, b64Val c2, b64Val c3, b64Val c4, b64Decode rest with
    | some s1, some s2, some s3, some s4, some r =>
      let n := s1 * 262144 + s2 * 4096 + s3 * 64 + s4
      some (UInt8.ofNat (n / 65536) :: UInt8.ofNat (n / 256 % 256) :: UInt8.ofNat (n % 256) :: r)
    | _, _, _, _, _ => none

/-! ### nada -/

structure NEnc where
  zeroRun : Nat := 0
  ffRun : Nat := 0
  rout : Bytes := []     -- output so far, REVERSED (the Rust `Vec::push` is a cons here)

def NEnc.flushZeroes (e : NEnc) : NEnc :=
  match e.zeroRun with
  | 0 => e
  | 1 => { e with rout := 0 :: e.rout, zeroRun := 0 }
  | 2 => { e with rout := 0 :: 0 :: e.rout, zeroRun := 0 }
  | n => { e with rout := UInt8.ofNat n :: 0xFF :: e.rout, zeroRun := 0 }

def NEnc.flushFF (e : NEnc) : NEnc :=
  match e.ffRun with
  | 0 => e
  | 1 => { e with rout := 1 :: 0xFF :: e.rout, ffRun := 0 }
  | _ => { e with rout := 2 :: 0xFF :: e.rout, ffRun := 0 }   -- ff_run never exceeds 2

def NEnc.flush (e : NEnc) : NEnc := e.flushZeroes.flushFF

def NEnc.feed (e : NEnc) (b : UInt8) : NEnc :=
  if b = 0 then
    let e := e.flushFF
    let e := { e with zeroRun := e.zeroRun + 1 }
    if e.zeroRun = 255 then e.flushZeroes else e
  else if b = 0xFF then
    let e := e.flushZeroes
    let e := { e with ffRun := e.ffRun + 1 }
    if e.ffRun = 2 then e.flushFF else e
  else
    let e := e.flush
    { e with rout := b :: e.rout }

def nadaEncode (x : Bytes) : Bytes := (x.foldl NEnc.feed {}).flush.rout.reverse

structure NDec where
  rout : Bytes := []     -- output so far, REVERSED
  len : Nat := 0         -- its length (`Decoder::len`)
  waiting : Bool := false

/-- `Decoder::feed`; `none` = `ReservedSequence`. -/
def NDec.feed (d : NDec) (b : UInt8) : Option NDec :=
  if d.waiting then
    if b = 0 then none
    else if b = 1 then some { rout := 0xFF :: d.rout, len := d.len + 1, waiting := false }
    else if b = 2 then some { rout := 0xFF :: 0xFF :: d.rout, len := d.len + 2, waiting := false }
    else some { rout := List.replicate b.toNat 0 ++ d.rout, len := d.len + b.toNat, waiting := false }
  else if b = 0xFF then some { d with waiting := true }
  else some { d with rout := b :: d.rout, len := d.len + 1 }

/-- `decode_with_limit`: after every input byte, an output of `limit` bytes or more is an error;
a dangling `0xFF` at the end is an error. -/
def nadaDecodeFrom (limit : Nat) (d : NDec) : Bytes → Option Bytes
  | [] => if d.waiting then none else some d.rout.reverse
  | b :: rest =>
    match d.feed b with
    | none => none
    | some d' => if limit ≤ d'.len then none else nadaDecodeFrom limit d' rest

def nadaDecodeLimit (limit : Nat) (x : Bytes) : Option Bytes := nadaDecodeFrom limit {} x

/-- `decode` without a limit. -/
def nadaDecodeAll (d : NDec) : Bytes → Option Bytes
  | [] => if d.waiting then none else some d.rout.reverse
  | b :: rest =>
    match d.feed b with
    | none => none
    | some d' => nadaDecodeAll d' rest

def nadaDecode (x : Bytes) : Option Bytes := nadaDecodeAll {} x

/-! ### payloads -/

/-- Everything before the first `=` (`split_once('=')`). -/
def stripPad : List Char → List Char
  | [] => []
  | c :: rest => if c = '=' then [] else c :: stripPad rest

/-- `decode_bytes_from_inscription_data`. `zdec` = zstd decompression into a `limit`-byte buffer
(with the frame-content-size pre-check), a parameter. -/
def decodePayload (limit : Nat) (zdec : Bytes → Option Bytes) (s : List Char) : Option Bytes :=
  match b64Decode (stripPad s) with
  | none => none
  | some [] => none                                   -- no prefix byte
  | some (p :: body) =>
    if p = 0 then (if limit < body.length then none else some body)
    else if p = 1 then nadaDecodeLimit (limit + 1) body
    else if p = 2 then zdec body
    else none

/-- `Base64Bytes::from_bytes`, given the zstd result as a parameter: `none` if compression fails
(output larger than the `limit`-byte buffer). Returns the base64 text. -/
def fromBytes (zenc : Option Bytes) (x : Bytes) : Option (List Char) :=
  match zenc with
  | none => none
  | some z =>
    let n := nadaEncode x
    if x.length < n.length ∧ x.length < z.length then some (b64Encode (0 :: x))
    else if n.length < z.length then some (b64Encode (1 :: n))
    else some (b64Encode (2 :: z))

/-- `select_bytes`: exactly one of the two encodings. Outer `none` = error. -/
def selectBytes (raw : Option (Option Bytes)) (b64 : Option (Option Bytes)) : Option (Option Bytes) :=
  match raw, b64 with
  | some r, none => some r
  | none, some b => some b
  | _, _ => none

end Brc20.Payload
