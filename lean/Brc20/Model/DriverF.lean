/-
Line-protocol driver for suite F (configuration database at start-up).
  state missing|empty|file|foreign
  validate <network> <traces>        (also used for `start`: start() = validate, then open)
  tamper <KEY> <value>
  rows
-/
import Brc20.Model.Config
import Brc20.Gen.Constants

namespace Brc20.DriverF
open Brc20.Config

def cfgOf (net traces : String) : Cfg :=
  { dbVersion := toString Gen.DB_VERSION, protocolVersion := toString Gen.PROTOCOL_VERSION,
    network := if net = "~" then "" else net, traces := traces }

def showErr : Err → String
  | .notDirectory => "err notdir"
  | .notFound k => "err notfound:" ++ k
  | .mismatch k => "err mismatch:" ++ k

def showRows (rows : AMap String String) : String :=
  ",".intercalate ([kDb, kProto, kNet, kTraces].map (fun k => k ++ "=" ++ (match rows.get? k with | some v => v | none => "-")))

def step (d : Dir) (line : String) : Dir × String :=
  let ws := (line.trimAscii.toString.splitOn " ").filter (· ≠ "")
  match ws with
  | "case" :: _ => (.missing, "case")
  | ["state", "missing"] => (.missing, "ok")
  | ["state", "empty"] => (.dir false [], "ok")
  | ["state", "file"] => (.file, "ok")
  | ["state", "foreign"] => (.dir true [], "ok")
  | ["partial", k, net, traces] =>
    (.dir true (((rowsOf (cfgOf net traces)).filter (fun p => p.1 ≠ k)).foldl (fun m p => m.insert p.1 p.2) []), "ok")
  | [op, net, traces] =>
    if op = "validate" || op = "start" then
      match validate d (cfgOf net traces) with
      | .ok d' => (d', "ok")
      | .error e => (d, showErr e)
    else if op = "tamper" then
      match d with
      | .dir _ rows => (.dir true (rows.insert net (if traces = "~" then "" else traces)), "ok")
      | .missing => (.dir true (AMap.insert ([] : AMap String String) net (if traces = "~" then "" else traces)), "ok")
      | .file => (d, "ok")
    else (d, "bad-op")
  | ["rows"] =>
    match d with
    | .dir _ rows => (d, showRows rows)
    | _ => (d, "-")
  | _ => (d, "bad-op")

end Brc20.DriverF
