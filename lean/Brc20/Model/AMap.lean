/-
Association-list maps. Used for the RocksDB columns (iterated in key order through `sortedBy`)
and for the in-memory `HashMap`s (iterated in list order, which theorems treat as arbitrary:
every result is shown invariant under permutation of the list).
No imports: this file is part of the executable model driver.
-/
namespace Brc20

abbrev AMap (K V : Type) := List (K × V)

namespace AMap
variable {K V : Type} [DecidableEq K]

def get? (m : AMap K V) (k : K) : Option V :=
  match m with
  | [] => none
  | (k', v) :: rest => if k' = k then some v else get? rest k

def erase (m : AMap K V) (k : K) : AMap K V :=
  m.filter (fun p => decide (p.1 ≠ k))

/-- Insert or replace. The new binding goes to the front; nothing depends on the position. -/
def insert (m : AMap K V) (k : K) (v : V) : AMap K V :=
  (k, v) :: erase m k

def contains (m : AMap K V) (k : K) : Bool := (get? m k).isSome

def keys (m : AMap K V) : List K := m.map (·.1)

/-- No key is bound twice. -/
def Nodup (m : AMap K V) : Prop := (keys m).Nodup

end AMap
end Brc20
