/-
Gas allowance and gas estimation: model of `get_gas_limit`, `get_inscription_byte_len` (src/engine/utils.rs) and of
the bisection loop of `eth_estimateGas` / `eth_estimateGasMany` (src/server/rpc_server.rs).
u64 arithmetic is explicit: `U64MAX = 2^64 - 1`, `saturating_mul`, `saturating_div`.
-/
namespace Brc20.Gas

def U64MAX : Nat := 2 ^ 64 - 1

/-- `inscription_byte_len.saturating_mul(GAS_PER_BYTE)` -/
def gasLimit (G : Nat) (byteLen : Nat) : Nat := min (byteLen * G) U64MAX

/-- `gas_limit.saturating_div(GAS_PER_BYTE)` (a parked transaction's allowance is stored as gas and converted back) -/
def byteLenOf (G : Nat) (gas : Nat) : Nat := gas / G

/-- One simulation at a gas limit: did the call succeed? (`Err` from revm counts as "too low".) -/
abbrev Succ := Nat → Bool

/-- The loop `while lower + G < upper { mid = (lower + upper) / 2; if succ mid { upper = mid } else { lower = mid + 1 } }`,
returning the final `upper`; `fuel` bounds the iterations (any fuel ≥ 64 is enough, see `bisect_fuel`). -/
def bisect (G : Nat) (succ : Succ) : Nat → Nat → Nat → Nat
  | 0, _, hi => hi
  | fuel + 1, lo, hi =>
    if lo + G < hi then
      let mid := (lo + hi) / 2
      if succ mid then bisect G succ fuel lo mid else bisect G succ fuel (mid + 1) hi
    else hi

/-- Number of simulations the loop performs. -/
def bisectSteps (G : Nat) (succ : Succ) : Nat → Nat → Nat → Nat
  | 0, _, _ => 0
  | fuel + 1, lo, hi =>
    if lo + G < hi then
      let mid := (lo + hi) / 2
      1 + (if succ mid then bisectSteps G succ fuel lo mid else bisectSteps G succ fuel (mid + 1) hi)
    else 0

/-- `eth_estimateGas`: a first run at the call gas cap must succeed; then bisect between `floor` (21000) and the cap;
then a confirmation run at the estimate. `none` = an error response. -/
def estimate (G floor cap : Nat) (succ : Succ) : Option Nat :=
  if succ cap then
    let g := bisect G succ 64 floor cap
    if succ g then some g else none
  else none

/-- The inscription length a client derives from an estimate: `ceil(g / G)`. -/
def lenFor (G g : Nat) : Nat := (g + G - 1) / G

end Brc20.Gas
