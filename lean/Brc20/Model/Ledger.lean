/-
The BRC20 bridge ledger: a hand translation of `BRC20` and `BRC20_Controller`
(src/brc20_controller/contract/src/BRC20_Controller.sol), with Solidity's checked / unchecked arithmetic over
uint256 made explicit, `msg.sender` carried by every message, and a revert modelled as `none` (state unchanged).
Addresses are numbers (0 = `address(0)`), tickers are byte strings.
-/
import Brc20.Model.AMap

namespace Brc20.Ledger

def U256 : Nat := 2 ^ 256
def MAXU : Nat := 2 ^ 256 - 1

abbrev Addr := Nat

/-- one `BRC20` token contract -/
structure Token where
  owner : Addr                              -- Ownable: the deployer (the controller)
  balances : AMap Addr Nat := []
  allowances : AMap (Addr × Addr) Nat := []
  totalSupply : Nat := 0

namespace Token

def balanceOf (t : Token) (a : Addr) : Nat := (t.balances.get? a).getD 0

/-- `allowance`: unlimited for oneself -/
def allowance (t : Token) (owner spender : Addr) : Nat :=
  if spender = owner then MAXU else (t.allowances.get? (owner, spender)).getD 0

/-- `_update`; `none` = revert -/
def update (t : Token) (from_ to : Addr) (value : Nat) : Option Token :=
  -- debit (or mint: checked addition of the supply)
  let step1 : Option Token :=
    if from_ = 0 then
      if t.totalSupply + value ≤ MAXU then some { t with totalSupply := t.totalSupply + value } else none
    else
      let fb := t.balanceOf from_
      if fb < value then none else some { t with balances := t.balances.insert from_ (fb - value) }
  match step1 with
  | none => none
  | some t1 =>
    -- credit (or burn): unchecked
    if to = 0 then some { t1 with totalSupply := (t1.totalSupply + U256 - value) % U256 }
    else some { t1 with balances := t1.balances.insert to ((t1.balanceOf to + value) % U256) }

def transfer_ (t : Token) (from_ to : Addr) (value : Nat) : Option Token :=
  if from_ = 0 then none else if to = 0 then none else t.update from_ to value

def mint_ (t : Token) (account : Addr) (value : Nat) : Option Token :=
  if account = 0 then none else t.update 0 account value

def burn_ (t : Token) (account : Addr) (value : Nat) : Option Token :=
  if account = 0 then none else t.update account 0 value

def approve_ (t : Token) (owner spender : Addr) (value : Nat) : Option Token :=
  if owner = 0 then none else if spender = 0 then none
  else some { t with allowances := t.allowances.insert (owner, spender) value }

def spendAllowance (t : Token) (owner spender : Addr) (value : Nat) : Option Token :=
  let cur := t.allowance owner spender
  if cur < MAXU then
    if cur < value then none else t.approve_ owner spender (cur - value)
  else some t

/-- external entry points of a token; `sender` is `msg.sender` -/
inductive Call where
  | transfer (to : Addr) (value : Nat)
  | approve (spender : Addr) (value : Nat)
  | transferFrom (from_ to : Addr) (value : Nat)
  | approveAs (owner spender : Addr) (value : Nat)          -- onlyOwner
  | transferFromAs (spender from_ to : Addr) (value : Nat)   -- onlyOwner
  | mint (account : Addr) (value : Nat)                      -- onlyOwner
  | burn (account : Addr) (value : Nat)                      -- onlyOwner

def exec (t : Token) (sender : Addr) : Call → Option Token
  | .transfer to v => t.transfer_ sender to v
  | .approve sp v => t.approve_ sender sp v
  | .transferFrom f to v => (t.spendAllowance f sender v).bind (fun t' => t'.transfer_ f to v)
  | .approveAs o sp v => if sender = t.owner then t.approve_ o sp v else none
  | .transferFromAs sp f to v =>
    if sender = t.owner then (t.spendAllowance f sp v).bind (fun t' => t'.transfer_ f to v) else none
  | .mint a v => if sender = t.owner then t.mint_ a v else none
  | .burn a v => if sender = t.owner then t.burn_ a v else none

end Token

/-- the controller: owner = the indexer address; one token per ticker, created on first mint -/
structure Ctl where
  self : Addr                       -- the controller's own address (owner of every token)
  owner : Addr                      -- the indexer
  tokens : AMap (List UInt8) Token := []

inductive CCall where
  | transfer (ticker : List UInt8) (to : Addr) (value : Nat)
  | approve (ticker : List UInt8) (spender : Addr) (value : Nat)
  | transferFrom (ticker : List UInt8) (from_ to : Addr) (value : Nat)
  | mint (ticker : List UInt8) (to : Addr) (value : Nat)        -- onlyOwner
  | burn (ticker : List UInt8) (from_ : Addr) (value : Nat)     -- onlyOwner

namespace Ctl

/-- a call into the token of `ticker` made by the controller; a missing token is a call to address 0 (reverts) -/
def onToken (c : Ctl) (ticker : List UInt8) (call : Token.Call) : Option Ctl :=
  match c.tokens.get? ticker with
  | none => none
  | some t => (t.exec c.self call).map (fun t' => { c with tokens := c.tokens.insert ticker t' })

def exec (c : Ctl) (sender : Addr) : CCall → Option Ctl
  | .transfer tk to v => c.onToken tk (.transferFrom sender to v)          -- 3-argument transferFrom, spender = controller
  | .approve tk sp v => c.onToken tk (.approveAs sender sp v)
  | .transferFrom tk f to v => c.onToken tk (.transferFromAs sender f to v)
  | .mint tk to v =>
    if sender ≠ c.owner then none
    else
      let c' : Ctl := match c.tokens.get? tk with
        | some _ => c
        | none => { c with tokens := c.tokens.insert tk { owner := c.self } }
      c'.onToken tk (.mint to v)
  | .burn tk f v => if sender ≠ c.owner then none else c.onToken tk (.burn f v)

def balanceOf (c : Ctl) (ticker : List UInt8) (a : Addr) : Nat :=
  match c.tokens.get? ticker with
  | some t => t.balanceOf a
  | none => 0

def totalSupply (c : Ctl) (ticker : List UInt8) : Nat :=
  match c.tokens.get? ticker with
  | some t => t.totalSupply
  | none => 0

end Ctl

/-- Everything that can reach the ledger: a call to the controller, or directly to a token contract, by any sender.
A reverted message leaves the state unchanged. -/
inductive Msg where
  | ctl (sender : Addr) (call : CCall)
  | token (sender : Addr) (ticker : List UInt8) (call : Token.Call)

def step (c : Ctl) : Msg → Ctl
  | .ctl s call => (c.exec s call).getD c
  | .token s tk call =>
    match c.tokens.get? tk with
    | none => c
    | some t =>
      match t.exec s call with
      | some t' => { c with tokens := c.tokens.insert tk t' }
      | none => c

def run (c : Ctl) (ms : List Msg) : Ctl := ms.foldl step c

/-- sum of all balances of a token -/
def Token.sumBalances (t : Token) : Nat := (t.balances.map (·.2)).sum

end Brc20.Ledger
