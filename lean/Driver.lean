import Brc20.Model.DriverT
import Brc20.Model.DriverC
import Brc20.Model.DriverP
import Brc20.Model.DriverF
import Brc20.Model.DriverE
import Brc20.Model.DriverA
import Brc20.Model.DriverK

open Brc20

partial def loopT (h : IO.FS.Stream) (out : IO.FS.Stream) (s : DriverT.St) : IO Unit := do
  let line ← h.getLine
  if line.isEmpty then return ()
  let (s', o) := DriverT.step s line
  out.putStrLn o
  loopT h out s'

partial def loopStateless (h : IO.FS.Stream) (out : IO.FS.Stream) (f : String → String) : IO Unit := do
  let line ← h.getLine
  if line.isEmpty then return ()
  out.putStrLn (f line)
  loopStateless h out f

partial def loopF (h : IO.FS.Stream) (out : IO.FS.Stream) (d : Config.Dir) : IO Unit := do
  let line ← h.getLine
  if line.isEmpty then return ()
  let (d', o) := DriverF.step d line
  out.putStrLn o
  loopF h out d'

partial def loopE (h : IO.FS.Stream) (out : IO.FS.Stream) (n : Node) : IO Unit := do
  let line ← h.getLine
  if line.isEmpty then return ()
  let (n', o) := DriverE.step n line
  out.putStrLn o
  loopE h out n'

partial def loopK (h : IO.FS.Stream) (out : IO.FS.Stream) (c : Ledger.Ctl) : IO Unit := do
  let line ← h.getLine
  if line.isEmpty then return ()
  let (c', o) := DriverK.step c line
  out.putStrLn o
  loopK h out c'

def main (args : List String) : IO UInt32 := do
  let stdin ← IO.getStdin
  let stdout ← IO.getStdout
  match args with
  | ["T"] => loopT stdin stdout {}; return 0
  | ["C"] => loopStateless stdin stdout DriverC.step; return 0
  | ["A"] => loopStateless stdin stdout DriverA.step; return 0
  | ["E"] => loopE stdin stdout {}; return 0
  | ["K"] => loopK stdin stdout DriverK.init; return 0
  | ["F"] => loopF stdin stdout .missing; return 0
  | ["P"] => loopStateless stdin stdout DriverP.step; return 0
  | _ => IO.eprintln "usage: brc20model <suite>"; return 2
