#!/bin/bash
# try_seed.sh <patch.diff> <property...> : apply the patch to /repo, run the checks, undo the patch
P=$1; shift
git -C /repo apply $P || exit 2
for c in "$@"; do VERIF_EVIDENCE_DIR=/verif/work/evidence_seeded /verif/check $c 2>&1 | grep -E "^\[|VIOLATION|KNOWN|broken" | cut -c1-400; echo "rc[$c]=${PIPESTATUS[0]}"; done
git -C /repo checkout -- .
rm -rf /verif/work/L  # lock traces of a seeded tree must not feed the translator
for g in /verif/tools/gen_*.py; do python3 $g > /dev/null; done
