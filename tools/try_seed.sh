#!/bin/bash
# try_seed.sh <patch.diff> <property...> : apply the patch to /repo, run the checks, undo the patch
P=$1; shift
git -C /repo apply $P || exit 2
for c in "$@"; do /verif/check $c 2>&1 | grep -E "^\[|VIOLATION|KNOWN|broken" | cut -c1-400; echo "rc[$c]=${PIPESTATUS[0]}"; done
git -C /repo checkout -- .
for g in /verif/tools/gen_*.py; do python3 $g > /dev/null; done
