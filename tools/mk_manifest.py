#!/usr/bin/env python3
"""Writes /verif/MANIFEST.json from the table below (claimed checks) + properties.jsonl (everything else is listed
under not_applicable with its reason)."""
import json, os
ROOT = os.path.join(os.path.dirname(os.path.abspath(__file__)), "..")
props = [json.loads(l) for l in open(os.path.join(ROOT, "properties.jsonl"))]

CLAIMED = {
    "C13": dict(
        text="Lean theorems: refinement of the versioned-table model to a plain per-key-log map for every legal API history of any length (run_sim), exact rollback inside the window, exact-or-loud history rollback, commit/discard/reopen laws, version bound, complete + ordered + hash-order-independent scans; tied to the code by the suite-T correspondence (every op answered by the real BlockCachedDatabase / BlockHistoryCacheData / BlockDatabase and by the compiled model, on-disk rows included) and by the regenerated window constant",
        note="trusted: Lean kernel (+ propext, Classical.choice, Quot.sound); RocksDB put/delete atomicity and byte-order iteration (parameter); the harness, line protocol and driver parser; codec round trip proved under C14. Known finding F12 (component-level deep rollback after history GC) is listed in known_findings.json.",
        technique="Lean 4 proof (forward simulation to a plain map, induction over histories) + differential correspondence with the real tables",
        ref="DESIGN.md §6 C13"),
    "C14": dict(
        text="Lean theorems: decode(encode x ++ rest) = (x, rest) for every describable type (unbounded sizes/nesting), injectivity, big-endian and composite-key order preservation; record field sequences are regenerated from every impl Encode / impl Decode on each run and proved aligned by kernel `decide` over the whole table; suite C compares the real decoder with the model decoder on real encodings (+junk, truncations) and checks losslessness, self-delimitation, key order and JSON re-serialisation on the real code",
        note="trusted: Lean kernel (+ the three standard axioms); translator tools/gen_codecs.py; harness value describers; JSON (serde derive / ruint) is validated on the real code only (partial for the JSON clause)",
        technique="Lean 4 proof (structural induction on type descriptions) + regenerated field lists checked by decide + differential correspondence",
        ref="DESIGN.md §6 C14"),
    "C15": dict(
        text="Lean theorems: base64(no pad) and nada round trips for all byte strings, payload round trip for every prefix the published encoder can pick and any '=' padding up to and including the limit, decode output never exceeds the limit (bombs), unknown prefix / empty text refused, hex and base64 fields select the same bytes; base64 and nada are transcribed from the crates' sources; suite P compares the real decoder/encoder/select_bytes with the model (zstd outcome supplied as oracle) incl. payloads at limit-1/limit/limit+1 and decompression bombs",
        note="trusted: Lean kernel (+ propext, Quot.sound); zstd as a parameter with the stated contract; harness and line protocol. End-to-end equality of transactions/receipts for hex vs base64 submissions is exercised by the engine suite, not proved here.",
        technique="Lean 4 proof (state-machine invariant for nada, arithmetic for base64) + differential correspondence",
        ref="DESIGN.md §6 C15"),
    "C20": dict(
        text="Lean theorems over the start-up check model: a directory created under c reopens under c' iff all four recorded settings coincide (strings unbounded), any mismatch / missing record / non-directory fails, acceptance never rewrites, fresh run records exactly the creating configuration; the call order of start() (validate before opening the engine database) and the four keys are regenerated from the source and checked by decide; suite F runs the full creating x reopening matrix over 7 networks + empty x traces, tampered / foreign / file / empty / missing directories against the real validate_config_database and through the public start()",
        note="trusted: Lean kernel (+ propext, Quot.sound); translator gen_start.py; to_string renderings injective; RocksDB",
        technique="Lean 4 proof (case analysis over the four recorded keys) + regenerated call order + differential correspondence incl. the public start()",
        ref="DESIGN.md §6 C20"),
    "C16": dict(
        text="Lean theorems: allowance = min(12000*len, u64::MAX), monotone, inverse conversion for parked transactions; for an ARBITRARY success predicate the bisection terminates within 64 simulations, returns a figure in [21000, cap] at which the confirmation run succeeded, and always returns one when the cap run succeeds; for monotone predicates ceil(g/12000) bytes suffice and g is within 12000 of the least sufficient limit; constants regenerated from the source; tie: gas arithmetic compared with the real functions (suite C `gas` lines), and every eth_estimateGas of suite E is checked against its recorded EVM probes (confirmation run at the returned figure, bounds, <= 66 simulations)",
        note="trusted: Lean kernel (+ propext); revm's gas accounting is a parameter (gasUsed <= gasLimit and monotonicity are assumptions stated in the theorems, exercised but not proved)",
        technique="Lean 4 proof (loop invariant + halving measure for the bisection, arithmetic) + differential correspondence + recorded-probe check",
        ref="DESIGN.md §6 C16"),
}
PENDING_REASON = "not claimed yet in this commit: model and theorems for this property are still being built (see DESIGN.md §10 order of work)"

m = {
    "version": 1,
    "setup_cmd": "./setup.sh",
    "hooks": {"guard": "cargo feature verif-hooks",
              "enable": "the harness crate /verif/harness depends on brc20-prog = { path = \"/repo\", features = [\"verif-hooks\"] }; `cargo build --offline` in /verif/harness rebuilds /repo's working tree with the hooks on",
              "baseline_off_cmd": "cd /repo && cargo test --workspace --no-fail-fast --offline",
              "source_commits": ["cefa175"], "add_only": True},
    "engines": [{"name": "lean-proof+correspondence", "path": "/verif/check", "serves_properties": sorted(CLAIMED),
                 "kind_free_text": "Lean 4 theorems over an executable model (lean/Brc20), facts regenerated from the source on every run (tools/gen_*.py -> lean/Brc20/Gen), and a differential correspondence check between the compiled model driver and the real code driven in-process by /verif/harness"}],
    "checks": [], "notes": "see DESIGN.md; known findings in known_findings.json; seeded changes in seeded/", "not_applicable": []}
for p in props:
    i = p["id"]
    if i in CLAIMED:
        c = CLAIMED[i]
        m["checks"].append({
            "property_id": i, "quick_cmd": f"./check {i} --tier quick", "thorough_cmd": f"./check {i} --tier thorough",
            "evidence_file": f"/verif/evidence/{i}.json", "replay_cmd_template": f"./check {i} --replay {{path}}",
            "engine": "lean-proof+correspondence",
            "level_claimed": {"category": "proof", "text": c["text"], "design_ref": c["ref"]},
            "level_note": c["note"], "technique": c["technique"]})
    else:
        m["not_applicable"].append({"property_id": i, "reason": PENDING_REASON})
json.dump(m, open(os.path.join(ROOT, "MANIFEST.json"), "w"), indent=1)
print("MANIFEST: claimed", sorted(CLAIMED))
