#!/usr/bin/env python3
"""Writes /verif/MANIFEST.json from the table below (claimed checks) + properties.jsonl (everything else is listed
under not_applicable with its reason)."""
import json, os
ROOT = os.path.join(os.path.dirname(os.path.abspath(__file__)), "..")
props = [json.loads(l) for l in open(os.path.join(ROOT, "properties.jsonl"))]

CLAIMED = {
    "C09": dict(
        text="Lean theorems: (1) database-slot discipline - every control path of every closure that moves the engine's database out of its slot (regenerated from engine.rs on every run) puts it back before leaving, hence after ANY sequence of requests, whatever the EVM answered, the database is in place (induction over request sequences); an exit between take and restore is rejected and provably wedges every later request; (2) panic inventory - every unwrap / expect / panic! / assert! / indexing site of the shipped code (regenerated on every run) is in the reviewed table with the guard, invariant or theorem that keeps requests away from it (kernel `decide`), and the table has no stale rows; (3) the guards that have a model: empty / malformed payloads are refused (C15), an accepted reorg never reaches `Reorg too deep` (C01), refused calls are error answers. Tie: suite Z fires thousands of malformed and adversarial requests (every registered method with arbitrary JSON, all payload prefixes / truncations / bombs, random and pathological EVM code, every Bitcoin helper contract with ABI-valid and mangled input against a mock node, batches and broken envelopes) at the real RPC module, each behind a watchdog and followed by a liveness probe and periodic write rounds; suite P compares the real payload decoder with the model on every outcome including panics",
        note="partial by nature: panics, unbounded loops, stack or memory exhaustion inside revm / alloy / bitcoin / zstd / rocksdb / jsonrpsee are parameters, exercised by suite Z only; the reviewed table is a human judgement per site. Trusted: Lean kernel (+ the three standard axioms), translators gen_slot.py / gen_panics.py, the harness",
        technique="Lean 4 proof (induction over request sequences for the slot state machine; kernel decide over the regenerated path and site tables) + adversarial differential / liveness testing of the real RPC module",
        ref="DESIGN.md §6 C09"),
    "C04": dict(
        text="Lean theorems: ENGINE LEVEL - a crash at any index of the global write sequence of commit_changes (3 block tables then 12 versioned tables; order regenerated from the source, theorems hold for any order) cuts each table at its own index, and after reopen brc20_reorg(n0) to a durable in-window height is accepted, every table reads its value at n0, block tables hold exactly the persisted rows <= n0 and the node stands at n0; the same for a crash inside brc20_reorg(m). TABLE LEVEL - for every state reachable by a legal history of any length, every commit block, every write index i and every durable in-window target n, (first i persistent writes of the commit, process death, reopen, reorg n) does not panic and every key reads its value at the end of block n; the same for a crash at any write of the commit that ends a reorg; a crash with no write in flight loses only uncommitted work; crash after the last write = completed commit. Tie: suite T compares the per-key order of the persistent writes the real BlockCachedDatabase issues in commit/reorg (recorded by the failpoint hook) with the model's write list, plus on-disk rows; suite X kills the real engine process at sampled write indices of every commit / reorg of random histories, reopens, reorgs to a durable height and compares the whole observable state with a fresh replay",
        note="trusted: Lean kernel (+ propext, Classical.choice, Quot.sound); RocksDB single-write atomicity and persistence across process death (parameter; power-loss / fsync durability not modelled); failpoint hook; composition across the engine's tables is exercised (suite X), the theorems are per table. The defect found by the proof attempt (F18: history deleted before the value row was rewritten) was repaired by a fix: commit and is listed as fixed in known_findings.json",
        technique="Lean 4 proof (simulation invariant over crash prefixes of the write list) + write-order correspondence + real process-kill differential test",
        ref="DESIGN.md §6 C04"),
    "C13": dict(
        text="Lean theorems: refinement of the versioned-table model to a plain per-key-log map for every legal API history of any length (run_sim), exact rollback inside the window, exact-or-loud history rollback, commit/discard/reopen laws, version bound, complete + ordered + hash-order-independent scans; tied to the code by the suite-T correspondence (every op answered by the real BlockCachedDatabase / BlockHistoryCacheData / BlockDatabase and by the compiled model, on-disk rows included) and by the regenerated window constant",
        note="trusted: Lean kernel (+ propext, Classical.choice, Quot.sound); RocksDB put/delete atomicity and byte-order iteration (parameter); the harness, line protocol and driver parser; codec round trip proved under C14. Known finding F12 (component-level deep rollback after history GC) is listed in known_findings.json.",
        technique="Lean 4 proof (forward simulation to a plain map, induction over histories) + differential correspondence with the real tables",
        ref="DESIGN.md §6 C13"),
    "C14": dict(
        text="Lean theorems: decode(encode x ++ rest) = (x, rest) for every describable type (unbounded sizes/nesting), injectivity, big-endian and composite-key order preservation; record field sequences are regenerated from every impl Encode / impl Decode on each run and proved aligned by kernel `decide` over the whole table; suite C compares the real decoder with the model decoder on real encodings (+junk, truncations) and checks losslessness, self-delimitation, key order and JSON re-serialisation on the real code",
        note="trusted: Lean kernel (+ the three standard axioms); translator tools/gen_codecs.py; harness value describers; JSON (serde derive / ruint) is validated on the real code only (partial for the JSON clause)",
        technique="Lean 4 proof (structural induction on type descriptions) + regenerated field lists checked by decide + differential correspondence",
        ref="DESIGN.md §6 C14"),
    "C15": dict(
        text="Lean theorems: base64(no pad) and nada round trips for all byte strings, payload round trip for every prefix the published encoder can pick and any '=' padding up to and including the limit, decode output never exceeds the limit (bombs), unknown prefix / empty text refused, hex and base64 fields select the same bytes; base64 and nada are transcribed from the crates' sources; suite P compares the real decoder/encoder/select_bytes with the model (zstd outcome supplied as oracle) incl. payloads at limit-1/limit/limit+1 and decompression bombs",
        note="trusted: Lean kernel (+ propext, Quot.sound); zstd as a parameter with the stated contract; harness and line protocol. End-to-end equality of transactions/receipts for hex vs base64 submissions is exercised by the engine suite, not proved here.",
        technique="Lean 4 proof (state-machine invariant for nada, arithmetic for base64) + differential correspondence",
        ref="DESIGN.md §6 C15"),
    "C20": dict(
        text="Lean theorems over the start-up check model: a directory created under c reopens under c' iff all four recorded settings coincide (strings unbounded), any mismatch / missing record / non-directory fails, acceptance never rewrites, fresh run records exactly the creating configuration; the call order of start() (validate before opening the engine database) and the four keys are regenerated from the source and checked by decide; suite F runs the full creating x reopening matrix over 7 networks + empty x traces, tampered / foreign / file / empty / missing directories against the real validate_config_database and through the public start()",
        note="trusted: Lean kernel (+ propext, Quot.sound); translator gen_start.py; to_string renderings injective; RocksDB",
        technique="Lean 4 proof (case analysis over the four recorded keys) + regenerated call order + differential correspondence incl. the public start()",
        ref="DESIGN.md §6 C20"),
    "C16": dict(
        text="Lean theorems: allowance = min(12000*len, u64::MAX), monotone, inverse conversion for parked transactions; for an ARBITRARY success predicate the bisection terminates within 64 simulations, returns a figure in [21000, cap] at which the confirmation run succeeded, and always returns one when the cap run succeeds; for monotone predicates ceil(g/12000) bytes suffice and g is within 12000 of the least sufficient limit; constants regenerated from the source; tie: gas arithmetic compared with the real functions (suite C `gas` lines), and every eth_estimateGas of suite E is checked against its recorded EVM probes (confirmation run at the returned figure, bounds, <= 66 simulations); a call whose single recorded run failed and whose recorded writes pass the driver's discipline leaves storage and code unchanged for every key and accounts unchanged except sender and coinbase (frame theorem over the recorded writes); oracle on the real code: storage and code tables before = after every transaction with status 0",
        note="trusted: Lean kernel (+ propext); revm's gas accounting is a parameter (gasUsed <= gasLimit and monotonicity are assumptions stated in the theorems, exercised but not proved)",
        technique="Lean 4 proof (loop invariant + halving measure for the bisection, arithmetic) + differential correspondence + recorded-probe check",
        ref="DESIGN.md §6 C16"),
    "C01": dict(
        text="Lean: for EVERY reachable state of the engine model (the empty node closed under all operations with any arguments and any recorded events) the tables refine plain per-key logs, stamps obey the block discipline, and every reorg the engine does not refuse answers ok and restores every table to the end of the target block - with the single proviso that the two pending-pool tables carry no stamp above the tip (= known finding F10, reproduced by the model); acceptance rule as an iff, refused = untouched, an accepted reorg never panics and every table reads the value each key had at the end of the target block (via the table refinement of C13), block rows above the target gone, simulation kept with logs truncated (so later executions continue from that state); tie: the Lean engine model reproduces the real engine's full state digest (12 versioned tables x 3 columns, block tables, heights, block under construction) after every op of random histories, and at every accepted reorg the real instance is compared with a fresh instance replayed up to the target and kept in lockstep afterwards",
        note='trusted: Lean kernel (+ propext, Classical.choice, Quot.sound); revm, hashes and RocksDB as parameters; the hooks (EVM recorder, table-write events, state probe) and the harness; see DESIGN.md §3',
        technique='Lean 4 proof (per-table forward simulation lifted to the 12-table node) + state-digest correspondence + fresh-replay twin',
        ref="DESIGN.md §6 C01"),
    "C02": dict(
        text='Lean: all consensus constants and addresses pinned for protocol version 2 by decide over the regenerated table; scans independent of hash-map order; tie: twin instances (different hash seeds, commit/restart schedules) must give identical responses and observations; pinned observation digests of a fixed corpus',
        note='trusted: Lean kernel (+ propext, Classical.choice, Quot.sound); revm, hashes and RocksDB as parameters; the hooks (EVM recorder, table-write events, state probe) and the harness; see DESIGN.md §3',
        technique='Lean 4 proof (decide over regenerated constants, order-independence of scans) + replica twins + golden digests',
        ref="DESIGN.md §6 C02"),
    "C03": dict(
        text='Lean: for EVERY reachable state commit at a boundary changes no table read, no block read, no height; commit+reopen likewise; after clear / reopen every table reads the log of the last commit; a call that is not a commit point only writes caches (a restart after it = a restart before it); commit_changes / clear_caches / reorg each walk all 12+3 tables exactly once (table lists regenerated from the source, decide); commit+reopen likewise; clear/reopen = durable logs of the last commit; tie: engine-model state-digest correspondence incl. on-disk columns; twin with a different commit/restart schedule; after clearCaches/reopen the instance is compared with a fresh replay of the committed prefix',
        note='trusted: Lean kernel (+ propext, Classical.choice, Quot.sound); revm, hashes and RocksDB as parameters; the hooks (EVM recorder, table-write events, state probe) and the harness; see DESIGN.md §3',
        technique='Lean 4 proof (simulation preserved by commit/clear) + schedule twins',
        ref="DESIGN.md §6 C03"),
    "C05": dict(
        text='Lean: every error response of add-tx / transact / finalise / commit / reorg / initialise(genesis,height) / mine (for every node: after its pre-checks the loop cannot answer an error) returns the node unchanged; each protocol rule (index, timestamp, hash, count, existing block, mid-block commit/reorg) is refused; tie: model predicts the response class of every call incl. injected violations; the real state digest must be unchanged after every error response; every error of brc20_initialise is a no-op (no side condition); for every node and every protocol line an err answer of the driver transition function leaves the node unchanged, and for every history the sub-history of the accepted lines ends in the same node with the same answers (induction over histories)',
        note='trusted: Lean kernel (+ propext, Classical.choice, Quot.sound); revm, hashes and RocksDB as parameters; the hooks (EVM recorder, table-write events, state probe) and the harness; see DESIGN.md §3',
        technique='Lean 4 proof (case analysis of the engine model, induction over histories of the driver transition function) + response-class correspondence + before/after digests',
        ref="DESIGN.md §6 C05"),
    "C06": dict(
        text='Lean: for EVERY reachable state the three block tables hold rows for exactly the numbers below the next height (gap-free, together, also mid-block and on disk) and the heights are read off the hash table; accepted finalise creates exactly the next height with hash row, block rows, inverse index; counts exact; indexes consecutive; log index and cumulative gas are running sums; tie: coherence oracle over the real chain at every block boundary (parent hashes, hash<->number, tx/receipt/(block,index)/inscription lookups, log indexes, cumulative gas, receipts returned = receipts served)',
        note='trusted: Lean kernel (+ propext, Classical.choice, Quot.sound); revm, hashes and RocksDB as parameters; the hooks (EVM recorder, table-write events, state probe) and the harness; see DESIGN.md §3',
        technique='Lean 4 proof (model invariants) + coherence oracle on the real code',
        ref="DESIGN.md §6 C06"),
    "C08": dict(
        text='Lean: undecodable rejected, stale/far-future/wrong-chain untouched, parked leaves the block untouched, execution only at the account nonce, appended = 1 + live waiting successors (window edge exact), drain bounded; tie: the model predicts parking/execution/drain counts from its own pending table and must reproduce the state digest; reference pool in the generator predicts the receipt count of every brc20_transact',
        note='trusted: Lean kernel (+ propext, Classical.choice, Quot.sound); revm, hashes and RocksDB as parameters; the hooks (EVM recorder, table-write events, state probe) and the harness; see DESIGN.md §3',
        technique='Lean 4 proof (classification + drain plan) + reference pool + correspondence',
        ref="DESIGN.md §6 C08"),
    "C10": dict(
        text='Lean: a read step returns the node it was given and is answered ok only if no table write / persistent write / committing run / DatabaseCommit entry was recorded; reads are removable from any history; tie: every read (incl. eth_call / estimate running state-changing code) is checked on the real code: recorded events, state digest before/after, and a twin that never sees the reads; for every history of protocol lines, deleting all read lines leaves the final node and the answers of all other lines unchanged (induction over histories of the driver transition function)',
        note='trusted: Lean kernel (+ propext, Classical.choice, Quot.sound); revm, hashes and RocksDB as parameters; the hooks (EVM recorder, table-write events, state probe) and the harness; see DESIGN.md §3',
        technique='Lean 4 proof (identity of the read step, induction over histories) + event recorder + read-free twin',
        ref="DESIGN.md §6 C10"),
    "C17": dict(
        text="Lean: the recorded simulation environment and the next transaction's environment agree on number, fees, value, coinbase; the simulation uses the caller's account nonce; tie: model checks every recorded simulation environment; on the real code each deploy/call at a block boundary is preceded by an eth_call whose status/output (runtime code for creations) must equal the transaction's; block gas limit included; the nonce bookkeeping of multi-call simulations hands out account nonce + earlier calls of the same caller (any caller list), an accepted round saw height / fees / that nonce call by call; for every EVM function ignoring timestamp, randomness, gas limit and txid the simulation outcome equals the transaction outcome; tie: the recorded environment of every simulation (eth_call, estimate probes, balance, prediction calls, every round of callMany / estimateGasMany) is sent to the model; oracle prediction-env compares simulation and transaction environments field by field",
        note='trusted: Lean kernel (+ propext, Classical.choice, Quot.sound); revm, hashes and RocksDB as parameters; the hooks (EVM recorder, table-write events, state probe) and the harness; see DESIGN.md §3',
        technique='Lean 4 proof (environment agreement, induction over caller lists, congruence for any EVM function) + recorded-environment correspondence + eth_call/transaction pairing oracles',
        ref="DESIGN.md §6 C17"),
    "C18": dict(
        text='Lean: result = in-range logs filtered (sublist, exact membership), range rule as an iff under heights < 2^63, defaults, positional filter semantics (wildcard, equality, any-of, beyond-topics fails); tie: eth_getLogs with random address/topic filters and ranges (reversed, too wide, single) compared with a reference filter over the receipts, finalised or in the block under construction; the answer is also compared with a replica rebuilt by fresh replay after every reorg (independent of index rows)',
        note='trusted: Lean kernel (+ propext, Classical.choice, Quot.sound); revm, hashes and RocksDB as parameters; the hooks (EVM recorder, table-write events, state probe) and the harness; see DESIGN.md §3',
        technique='Lean 4 proof (filter semantics, range arithmetic) + reference filter oracle',
        ref="DESIGN.md §6 C18"),
    "C19": dict(
        text="Lean: an accepted call's runs all saw number = height being built, supplied timestamp, supplied/generated hash as randomness, zero fees, and the first run the supplied txid; tie: the model refuses recorded environments that differ; a probe contract stores NUMBER..BLOCKHASH and the 0xfa txid, read back through eth_getStorageAt and compared with what was sent; what the current-txid helper answers is a function of the network and the execution height alone (supplied txid under Prague, nothing before; parking height irrelevant; no collision under the RLP-hash rule); tie: transactions executed before, across and after the real signet and mainnet activation heights on the real engine (parked and drained included), every observation answered by the model; known finding F21 (legacy signing-hash collision on mainnet 923369..928999) reproduced by the model",
        note='trusted: Lean kernel (+ propext, Classical.choice, Quot.sound); revm, hashes and RocksDB as parameters; the hooks (EVM recorder, table-write events, state probe) and the harness; see DESIGN.md §3',
        technique='Lean 4 proof (environment check, fork-rule case analysis) + context probe contract + activation-height scenario on the real engine',
        ref="DESIGN.md §6 C19"),
    "C11": dict(
        text="Failing-input search: suite D runs reader threads over every read method against one or two indexer threads on the real engine in a child process and reports when all threads are stuck. Lean theorem: under writer-preferring read-write locks, any number of threads running programs that never re-acquire a held lock, acquire in strictly increasing rank and release what they acquire can never be stuck (unbounded threads and schedules; invariant + maximal-rank argument), every step decreases a measure, and the two hazards (re-entrant read with a queued writer, order inversion) are proved to deadlock; tie: the lock programs of every RPC method are recorded from the running code on every run (tracer hook), translated into Gen/LockTraces.lean with a proposed order, and every program is re-checked against the discipline by kernel `decide`",
        note="trusted: Lean kernel (+ propext, Classical.choice, Quot.sound); writer-preferring semantics of std RwLock; the tracer and translator; executed paths only (coverage of methods is printed in the evidence); RocksDB/tokio internals and scheduler fairness not modelled",
        technique="Lean 4 proof (progress + termination of disciplined lock programs) + traces regenerated from the running code, checked by decide",
        ref="DESIGN.md §6 C11"),
    "C12": dict(
        text="Lean theorems over the middleware model: without the exact expected header a request is never marked; an unmarked request never reaches a protected method as call (401), notification (dropped) or batch entry at any position (401); public methods are always forwarded; correct credentials / auth off forward everything; regenerated tables checked by decide: every handler that reaches a state-changing engine entry point is on the protected list, the protected list only names registered methods, the running module's method table equals the source's, the set of mutating methods is the one the engine model knows; tie: the real server (built exactly as start() builds it) over real HTTP: every registered method x 8 header kinds x {call, notification}, protected methods at every batch position as call and notification mixed with public ones and malformed entries, auth on and off; observable state unchanged after every unauthenticated request",
        note="trusted: Lean kernel (+ propext, Quot.sound); jsonrpsee/hyper/tower delivery contract; translator gen_methods.py; WebSocket not exercised",
        technique="Lean 4 proof (middleware decision logic, induction over the batch) + regenerated method tables checked by decide + differential correspondence over real HTTP",
        ref="DESIGN.md §6 C12"),
    "C07": dict(
        text="Lean theorems over a hand translation of BRC20 / BRC20_Controller (checked/unchecked uint256 arithmetic, msg.sender, onlyOwner, allowances): an invariant (supply = sum of balances, supply <= 2^256-1, tokens owned by the controller, ...) holds initially and is preserved by every message from every sender; only the indexer (controller calls) or the controller (direct token calls) can change a supply, so no user message sequence mints or burns; deposit exact; withdrawal exact or no-op; transfers conserve; tie: suite K drives deposits/withdrawals through the RPC and user calls (transfer/approve/transferFrom, adversarial mint/burn/owner-only overloads, direct token calls, extreme amounts, mixed-case tickers) against the real embedded bytecode in revm; the model must predict every status, balance and supply; the harness independently audits supply = sum of holders and that supplies move only with successful deposits/withdrawals",
        note="trusted: Lean kernel (+ propext, Classical.choice, Quot.sound); solc / the embedded bytecode and revm storage isolation validated by correspondence only; sender-address disjointness is a keccak/ECDSA hypothesis",
        technique="Lean 4 proof (ledger invariant by induction over messages) + differential correspondence with the real contract bytecode",
        ref="DESIGN.md §6 C07"),
}
PENDING_REASON = "not claimed yet in this commit: model and theorems for this property are still being built (see DESIGN.md §10 order of work)"

m = {
    "version": 1,
    "setup_cmd": "./setup.sh",
    "hooks": {"guard": "cargo feature verif-hooks",
              "enable": "the harness crate /verif/harness depends on brc20-prog = { path = \"/repo\", features = [\"verif-hooks\"] }; `cargo build --offline` in /verif/harness rebuilds /repo's working tree with the hooks on",
              "baseline_off_cmd": "cd /repo && cargo test --workspace --no-fail-fast --offline",
              "source_commits": ["cefa175", "f6b9057", "7ebaff9", "375aba9"], "add_only": True},
    "engines": [{"name": "lean-proof+correspondence", "path": "/verif/check", "serves_properties": sorted(CLAIMED),
                 "kind_free_text": "Lean 4 theorems over an executable model (lean/Brc20), facts regenerated from the source on every run (tools/gen_*.py -> lean/Brc20/Gen), and a differential correspondence check between the compiled model driver and the real code driven in-process by /verif/harness"}],
    "checks": [], "notes": "see DESIGN.md; known findings in known_findings.json; seeded changes in seeded/", "not_applicable": []}
for p in props:
    i = p["id"]
    if i in CLAIMED:
        c = CLAIMED[i]
        m["checks"].append({
            "property_id": i, "quick_cmd": f"./check {i} --tier quick", "thorough_cmd": f"./check {i} --tier thorough",
            "evidence_file": f"/verif/evidence/{i}.json", "replay_cmd_template": f"./check {i} --replay {{path}}",
            "engine": "lean-proof+correspondence",
            "level_claimed": {"category": "proof", "text": c["text"], "design_ref": c["ref"]},
            "level_note": c["note"], "technique": c["technique"]})
    else:
        m["not_applicable"].append({"property_id": i, "reason": PENDING_REASON})
json.dump(m, open(os.path.join(ROOT, "MANIFEST.json"), "w"), indent=1)
print("MANIFEST: claimed", sorted(CLAIMED))
