#!/bin/bash
# confirm_seed.sh <seed dir with patch.diff demo.diff meta.json> <worktree> <target dir>
# Confirms: (1) with the patch alone the existing tests pass, (2) demo alone passes, (3) patch + demo fails.
D=$1; WT=$2; export CARGO_TARGET_DIR=$3 CARGO_NET_OFFLINE=true
cd $WT && git checkout -q -- . && git clean -qfd
FILTER=$(python3 -c "import json,re,sys; c=json.load(open('$D/meta.json'))['demo_cmd']; m=re.search(r'--lib\s+(\S+)',c); print(m.group(1) if m else '')")
echo "demo filter: $FILTER"
git apply $D/patch.diff || { echo "PATCH DOES NOT APPLY"; exit 1; }
echo "== (1) existing tests with patch"; cargo test --offline --lib 2>&1 | grep -E "^test result|FAILED" | head -5
cargo test --offline --test deploy_call --test transact 2>&1 | grep -E "^test result|FAILED" | head -5
git apply $D/demo.diff || { echo "DEMO DOES NOT APPLY ON PATCH"; }
echo "== (3) demo with patch (must fail)"; cargo test --offline --lib $FILTER 2>&1 | grep -E "^test result|FAILED|panicked" | head -6
git checkout -q -- . && git clean -qfd
git apply $D/demo.diff
echo "== (2) demo without patch (must pass)"; cargo test --offline --lib $FILTER 2>&1 | grep -E "^test result|FAILED" | head -4
git checkout -q -- . && git clean -qfd
