"""Per-property configuration of ./check: Lean modules holding the property theorems, correspondence suites,
which reference-oracle families belong to the property, evidence level and trusted base."""

SUITES = {
    # suite -> harness generator parameters per tier
    "C": {"quick": ["--cases", "500"], "thorough": ["--cases", "6000"]},
    "E": {"quick": ["--cases", "30", "--max-ops", "60"], "thorough": ["--cases", "400", "--max-ops", "120"], "timeout": 7200},
    "F": {"quick": ["--cases", "60"], "thorough": ["--cases", "1500"]},
    "P": {"quick": ["--cases", "300", "--max-ops", "7"], "thorough": ["--cases", "3000", "--max-ops", "14"]},
    "T": {"quick": ["--cases", "150", "--max-ops", "60"], "thorough": ["--cases", "1500", "--max-ops", "120"]},
}

PROPS = {
    "C20": {
        "lean": ["Brc20.Props.C20"],
        "suites": ["F"],
        "level": "proof",
        "trusted": ["translator tools/gen_start.py (call order in start(), keys checked/written)",
                    "u32/bool to_string renderings are injective (configurations are compared through their recorded strings)",
                    "RocksDB get/put of the config column"],
        "assumptions": ["network names are compared literally: `mainnet` and `bitcoin` are different configurations"],
    },
    "C15": {
        "lean": ["Brc20.Props.C15"],
        "suites": ["P"],
        "level": "proof",
        "trusted": ["zstd (parameter): decompress(compress x) = x when it fits, output never exceeds the buffer; supplied to the model as an oracle value on each line",
                    "base64 crate STANDARD_NO_PAD and nada 0.2.2 are modelled from their sources and validated by correspondence"],
        "assumptions": ["RPC-level equality of transactions/receipts for hex vs base64 submissions is covered at the field-selection level here (select_bytes) and end-to-end by the engine suite"],
    },
    "C16": {
        "lean": ["Brc20.Props.C16"],
        "suites": ["C", "E"],
        "oracle_families": ["gas-arith", "estimate"],
        "mismatch_filter": {"C": "^gas$", "E": "^$"},
        "level": "proof",
        "trusted": ["revm gas accounting (parameter): gasUsed <= gasLimit, a run fails below its need and succeeds above it for programs that do not inspect remaining gas",
                    "the recorded simulations of eth_estimateGas (EVM recorder hook) are the loop's probes"],
        "assumptions": ["sufficiency is proved for monotone success predicates (programs not inspecting gas/time/randomness), as the property states"],
    },
    "C14": {
        "lean": ["Brc20.Props.C14"],
        "suites": ["C"],
        "oracle_families": ["lossless", "self-delimiting", "reencode", "order", "json"],
        "mismatch_filter": {"C": "^(rt|rtj|dec|ord)$"},
        "level": "proof",
        "trusted": ["translator tools/gen_codecs.py (field sequences of every impl Encode / impl Decode)",
                    "serde derive + ruint hex (JSON part: validated by re-serialisation on the real code only, not modelled)"],
        "assumptions": ["lengths < 2^32 (the Rust casts `len as u32`)", "TraceED nesting depth <= 12 in the model",
                        "TxED.chain_id / tx_type and the BlockResponseED constants are reconstituted from configuration, not stored"],
    },
    "C13": {
        "lean": ["Brc20.Props.C13"],
        "suites": ["T"],
        "level": "proof",
        "trusted": ["RocksDB: put/delete atomic and durable once returned, iteration in byte order (parameter)",
                    "storage codec round trip (proved separately under C14)"],
        "assumptions": ["block numbers < 2^64 - 11 (no u64 wrap in `key + MAX_REORG_HISTORY_SIZE`)",
                        "the window is measured from the newest block number ever passed to the table (set/unset/commit)"],
    },
}
