"""Per-property configuration of ./check: Lean modules holding the property theorems, correspondence suites,
which reference-oracle families belong to the property, evidence level and trusted base."""

SUITES = {
    # suite -> harness generator parameters per tier
    "T": {"quick": ["--cases", "150", "--max-ops", "60"], "thorough": ["--cases", "1500", "--max-ops", "120"]},
}

PROPS = {
    "C13": {
        "lean": ["Brc20.Props.C13"],
        "suites": ["T"],
        "level": "proof",
        "trusted": ["RocksDB: put/delete atomic and durable once returned, iteration in byte order (parameter)",
                    "storage codec round trip (proved separately under C14)"],
        "assumptions": ["block numbers < 2^64 - 11 (no u64 wrap in `key + MAX_REORG_HISTORY_SIZE`)",
                        "the window is measured from the newest block number ever passed to the table (set/unset/commit)"],
    },
}
