"""Per-property configuration of ./check: Lean modules holding the property theorems, correspondence suites,
which reference-oracle families belong to the property, evidence level and trusted base."""

SUITES = {
    # suite -> harness generator parameters per tier
    "C": {"quick": ["--cases", "500"], "thorough": ["--cases", "6000"]},
    "E": {"quick": ["--cases", "30", "--max-ops", "60"], "thorough": ["--cases", "400", "--max-ops", "120"], "timeout": 7200},
    "F": {"quick": ["--cases", "60"], "thorough": ["--cases", "1500"]},
    "P": {"quick": ["--cases", "300", "--max-ops", "7"], "thorough": ["--cases", "3000", "--max-ops", "14"]},
    "T": {"quick": ["--cases", "150", "--max-ops", "60"], "thorough": ["--cases", "1500", "--max-ops", "120"]},
}

PROPS = {
    "C01": {
        "lean": ["Brc20.Props.C01"], "suites": ["E", "T"],
        "oracle_families": ["reorg-vs-fresh-replay", "replay-refused", "rollback-in-window"],
        "level": "proof", "trusted": ["revm (parameter): what a run did arrives as recorded events; deterministic in state view and environment", "EVM recorder / table-write hooks (cargo feature verif-hooks)", "opaque hash functions (keccak, sha256, merkle, bloom): row contents are compared on the real code only"],
        "assumptions": ["the window hypothesis of C01.reorg_restores_tables (each table's newest stamp <= highest finalised block) is an invariant of block-structured histories; known finding F10 (a parked pending transaction is stamped H+1 with no block under construction) is outside it"],
    },
    "C02": {
        "lean": ["Brc20.Props.C02"], "suites": ["E"],
        "oracle_families": ["replica-response", "twin-diverged", "twin-observation", "golden"],
        "level": "proof", "trusted": ["revm (parameter): what a run did arrives as recorded events; deterministic in state view and environment", "EVM recorder / table-write hooks (cargo feature verif-hooks)", "opaque hash functions (keccak, sha256, merkle, bloom): row contents are compared on the real code only"] + ["golden digests in /verif/golden are regression evidence for the pinned protocol version, not proof"],
        "assumptions": ["replicas compared: same process / different hash seeds, different directories, different commit and restart schedules; the block processing time is removed from observations"],
    },
    "C03": {
        "lean": ["Brc20.Props.C03"], "suites": ["E", "T"],
        "oracle_families": ["clear-vs-last-commit", "twin-observation", "read"],
        "level": "proof", "trusted": ["revm (parameter): what a run did arrives as recorded events; deterministic in state view and environment", "EVM recorder / table-write hooks (cargo feature verif-hooks)", "opaque hash functions (keccak, sha256, merkle, bloom): row contents are compared on the real code only"], "assumptions": [],
    },
    "C05": {
        "lean": ["Brc20.Props.C05"], "suites": ["E"],
        "oracle_families": ["rejected-not-noop", "protocol-not-enforced", "unexpected-error"],
        "level": "proof", "trusted": ["revm (parameter): what a run did arrives as recorded events; deterministic in state view and environment", "EVM recorder / table-write hooks (cargo feature verif-hooks)", "opaque hash functions (keccak, sha256, merkle, bloom): row contents are compared on the real code only"],
        "assumptions": ["the tx_idx / timestamp / hash rules apply to calls that append a transaction; a signed transaction that is only parked or ignored appends nothing and is answered Ok([])",
                        "brc20_mine failing on a generated-hash collision after finalising some blocks (finding F16) is not covered by the no-op theorems (mine_waiting_noop only)"],
    },
    "C06": {
        "lean": ["Brc20.Props.C06"], "suites": ["E"],
        "oracle_families": ["coherence", "coherence-dup-txhash"],
        "level": "proof", "trusted": ["revm (parameter): what a run did arrives as recorded events; deterministic in state view and environment", "EVM recorder / table-write hooks (cargo feature verif-hooks)", "opaque hash functions (keccak, sha256, merkle, bloom): row contents are compared on the real code only"],
        "assumptions": ["model level: heights, hash<->number rows, counters; row contents (bloom, merkle root, raw encodings, receipts) are checked by the coherence oracle on the real code at every block boundary"],
    },
    "C08": {
        "lean": ["Brc20.Props.C08"], "suites": ["E"],
        "oracle_families": ["pool-receipts", "pool-index", "pool-gas"],
        "level": "proof", "trusted": ["revm (parameter): what a run did arrives as recorded events; deterministic in state view and environment", "EVM recorder / table-write hooks (cargo feature verif-hooks)", "opaque hash functions (keccak, sha256, merkle, bloom): row contents are compared on the real code only"] + ["secp256k1 recovery / RLP decoding of raw transactions: harness-side oracle (decodeRaw)"],
        "assumptions": ["revm bumps the sender nonce by one for every run it accepts (contract); known finding F11 covers runs it rejects"],
    },
    "C10": {
        "lean": ["Brc20.Props.C10"], "suites": ["E"],
        "oracle_families": ["read-changed-state", "read-wrote", "twin-observation"],
        "level": "proof", "trusted": ["revm (parameter): what a run did arrives as recorded events; deterministic in state view and environment", "EVM recorder / table-write hooks (cargo feature verif-hooks)", "opaque hash functions (keccak, sha256, merkle, bloom): row contents are compared on the real code only"] + ["revm's replay()/transact_one() do not call DatabaseCommit (validated by the recorder on every read, not proved)"],
        "assumptions": [],
    },
    "C17": {
        "lean": ["Brc20.Props.C17"], "suites": ["E"],
        "oracle_families": ["call-prediction"],
        "level": "proof", "trusted": ["revm (parameter): what a run did arrives as recorded events; deterministic in state view and environment", "EVM recorder / table-write hooks (cargo feature verif-hooks)", "opaque hash functions (keccak, sha256, merkle, bloom): row contents are compared on the real code only"],
        "assumptions": ["programs that do not read timestamp, randomness, remaining gas or the current txid, as the property states"],
    },
    "C18": {
        "lean": ["Brc20.Props.C18"], "suites": ["E"],
        "oracle_families": ["logs", "logs-range"],
        "level": "proof", "trusted": ["revm (parameter): what a run did arrives as recorded events; deterministic in state view and environment", "EVM recorder / table-write hooks (cargo feature verif-hooks)", "opaque hash functions (keccak, sha256, merkle, bloom): row contents are compared on the real code only"],
        "assumptions": ["heights below 2^63 (C18.range_rule shows why the wrapping subtraction needs a bound)"],
    },
    "C19": {
        "lean": ["Brc20.Props.C19"], "suites": ["E"],
        "oracle_families": ["context"],
        "level": "proof", "trusted": ["revm (parameter): what a run did arrives as recorded events; deterministic in state view and environment", "EVM recorder / table-write hooks (cargo feature verif-hooks)", "opaque hash functions (keccak, sha256, merkle, bloom): row contents are compared on the real code only"],
        "assumptions": ["regtest rules (Prague from height 0) in the suite; the fork table of other networks is pinned by C02.constants_pinned"],
    },

    "C20": {
        "lean": ["Brc20.Props.C20"],
        "suites": ["F"],
        "level": "proof",
        "trusted": ["translator tools/gen_start.py (call order in start(), keys checked/written)",
                    "u32/bool to_string renderings are injective (configurations are compared through their recorded strings)",
                    "RocksDB get/put of the config column"],
        "assumptions": ["network names are compared literally: `mainnet` and `bitcoin` are different configurations"],
    },
    "C15": {
        "lean": ["Brc20.Props.C15"],
        "suites": ["P"],
        "level": "proof",
        "trusted": ["zstd (parameter): decompress(compress x) = x when it fits, output never exceeds the buffer; supplied to the model as an oracle value on each line",
                    "base64 crate STANDARD_NO_PAD and nada 0.2.2 are modelled from their sources and validated by correspondence"],
        "assumptions": ["RPC-level equality of transactions/receipts for hex vs base64 submissions is covered at the field-selection level here (select_bytes) and end-to-end by the engine suite"],
    },
    "C16": {
        "lean": ["Brc20.Props.C16"],
        "suites": ["C", "E"],
        "oracle_families": ["gas-arith", "estimate"],
        "mismatch_filter": {"C": "^gas$", "E": "^$"},
        "level": "proof",
        "trusted": ["revm gas accounting (parameter): gasUsed <= gasLimit, a run fails below its need and succeeds above it for programs that do not inspect remaining gas",
                    "the recorded simulations of eth_estimateGas (EVM recorder hook) are the loop's probes"],
        "assumptions": ["sufficiency is proved for monotone success predicates (programs not inspecting gas/time/randomness), as the property states"],
    },
    "C14": {
        "lean": ["Brc20.Props.C14"],
        "suites": ["C"],
        "oracle_families": ["lossless", "self-delimiting", "reencode", "order", "json"],
        "mismatch_filter": {"C": "^(rt|rtj|dec|ord)$"},
        "level": "proof",
        "trusted": ["translator tools/gen_codecs.py (field sequences of every impl Encode / impl Decode)",
                    "serde derive + ruint hex (JSON part: validated by re-serialisation on the real code only, not modelled)"],
        "assumptions": ["lengths < 2^32 (the Rust casts `len as u32`)", "TraceED nesting depth <= 12 in the model",
                        "TxED.chain_id / tx_type and the BlockResponseED constants are reconstituted from configuration, not stored"],
    },
    "C13": {
        "lean": ["Brc20.Props.C13"],
        "suites": ["T"],
        "level": "proof",
        "trusted": ["RocksDB: put/delete atomic and durable once returned, iteration in byte order (parameter)",
                    "storage codec round trip (proved separately under C14)"],
        "assumptions": ["block numbers < 2^64 - 11 (no u64 wrap in `key + MAX_REORG_HISTORY_SIZE`)",
                        "the window is measured from the newest block number ever passed to the table (set/unset/commit)"],
    },
}
