#!/usr/bin/env python3
"""Translator: the engine's "database slot" discipline -> lean/Brc20/Gen/Slot.lean.

The engine moves its database out of the shared slot (`core::mem::take(&mut *db)`) for the duration of an EVM run and
puts it back (`core::mem::swap(&mut *db, evm.ctx().db_mut())`).  An exit from the closure between the two (a `?`, a
`return`) leaves an empty `Default` database behind: every later request fails (C09 "wedged").

For every closure that contains a `mem::take(&mut *db)` this script enumerates the control paths of the closure body
at the granularity that matters here:
  take / restore / mayexit (a `?`: leaves only on Err) / exit (a `return ...`) / end (the closure's tail)
A block that ends in `return` does not fall through: the events inside it are on the paths that leave there, not on
the fall-through path.  One path is emitted per exit point (the events before it on that path) plus the fall-through
path.  Lean checks every path (Props/C09: `C09.slot_paths_balanced`).

Also emitted: the operations between take and restore that can panic by themselves (unwrap / expect / indexing /
panic!-family), as `slotPanicSites` (expected: none)."""
import os, re, sys
ROOT = os.path.join(os.path.dirname(os.path.abspath(__file__)), "..")
REPO = os.environ.get("VERIF_REPO", "/repo")
OUT = os.path.join(ROOT, "lean", "Brc20", "Gen", "Slot.lean")
TAKE = re.compile(r"mem::take\(\s*&mut\s*\*db\s*\)")
RESTORE = re.compile(r"mem::swap\(\s*&mut\s*\*db\s*,")
PANICKY = re.compile(r"\.unwrap\(\)|\.expect\(|panic!|unreachable!|unimplemented!|todo!|\bassert(_eq|_ne)?!")


def strip(src):
    """blank out comments, string / char literals and cfg(feature = "verif-hooks") statements (same length)"""
    out = list(src)
    i, n = 0, len(src)
    while i < n:
        c = src[i]
        if src.startswith("//", i):
            j = src.find("\n", i)
            j = n if j < 0 else j
            for k in range(i, j):
                out[k] = " "
            i = j
        elif src.startswith("/*", i):
            j = src.find("*/", i)
            j = n if j < 0 else j + 2
            for k in range(i, j):
                if out[k] != "\n":
                    out[k] = " "
            i = j
        elif c == '"':
            j = i + 1
            while j < n and src[j] != '"':
                j += 2 if src[j] == "\\" else 1
            for k in range(i + 1, min(j, n)):
                if out[k] != "\n":
                    out[k] = " "
            i = j + 1
        elif c == "'" and i + 2 < n and (src[i + 2] == "'" or (src[i + 1] == "\\" and src.find("'", i + 2) - i <= 4)):
            j = src.find("'", i + 2 if src[i + 1] == "\\" else i + 1)
            for k in range(i + 1, j):
                out[k] = " "
            i = j + 1
        else:
            i += 1
    return "".join(out)


def enclosing_closure(code, pos):
    """the `{ ... }` body of the innermost closure `|db| {` that contains pos"""
    starts = [m.end() - 1 for m in re.finditer(r"\|\s*db\s*\|\s*\{", code) if m.end() <= pos]
    for st in reversed(starts):
        depth, i = 0, st
        while i < len(code):
            if code[i] == "{":
                depth += 1
            elif code[i] == "}":
                depth -= 1
                if depth == 0:
                    break
            i += 1
        if i > pos:
            return st, i
    return None


def fn_name(code, pos):
    ms = [m for m in re.finditer(r"\bfn\s+(\w+)", code) if m.start() < pos]
    return ms[-1].group(1) if ms else "?"


def paths_of(body):
    """body: text between the closure's braces. Returns (paths, panic sites between take and restore)."""
    toks = []
    for m in re.finditer(r"mem::take\(\s*&mut\s*\*db\s*\)|mem::swap\(\s*&mut\s*\*db\s*,|\breturn\b|\?|\{|\}|\|[^|\n]*\|\s*\{|" + PANICKY.pattern + r"|[\w\)\]]\[[^\]\[]*\]", body):
        toks.append((m.start(), m.group(0)))
    cur, marks, paths, panics = [], [], [], []
    diverged = [False]
    inner_closure_depth = []  # a `return` / `?` inside a nested closure leaves that closure only
    taken = False
    for pos, t in toks:
        if t.endswith("{") and t.startswith("|"):
            marks.append(len(cur)); diverged.append(False); inner_closure_depth.append(len(marks))
        elif t == "{":
            marks.append(len(cur)); diverged.append(False)
        elif t == "}":
            if not marks:
                continue
            m = marks.pop()
            d = diverged.pop()
            if inner_closure_depth and inner_closure_depth[-1] == len(marks) + 1:
                inner_closure_depth.pop()
            if d:
                cur = cur[:m]
                last = [e for e in cur if e in ("take", "restore")]
                taken = bool(last) and last[-1] == "take"
        elif TAKE.fullmatch(t):
            cur.append("take"); taken = True
        elif RESTORE.fullmatch(t):
            cur.append("restore"); taken = False
        elif t == "return":
            if inner_closure_depth:
                continue
            paths.append(cur + ["exit"])
            diverged[-1] = True
        elif t == "?":
            if inner_closure_depth:
                continue
            paths.append(cur + ["exit"])
        else:
            if taken:
                line = body.count("\n", 0, pos)
                panics.append((line, t))
    paths.append(cur + ["end"])
    return paths, panics


def main():
    path = os.path.join(REPO, "src", "engine", "engine.rs")
    src = open(path).read()
    # statements under a `#[cfg(feature = "verif-hooks")]` attribute are not part of the shipped code: blanked
    raw_attr = [(m.start(), m.end()) for m in re.finditer(r"#\[cfg\(feature = \"verif-hooks\"\)\]", src)]
    code = list(strip(src))
    for a, b in raw_attr:
        i, depth = b, 0
        while i < len(src):
            ch = code[i]
            if ch in "({[":
                depth += 1
            elif ch in ")}]":
                depth -= 1
            elif ch == ";" and depth == 0:
                break
            i += 1
        for k in range(a, min(i + 1, len(src))):
            if code[k] != "\n":
                code[k] = " "
    code = "".join(code)
    regions, seen = [], set()
    for m in TAKE.finditer(code):
        enc = enclosing_closure(code, m.start())
        if not enc or enc in seen:
            continue
        seen.add(enc)
        st, en = enc
        paths, panics = paths_of(code[st + 1:en])
        line0 = code.count("\n", 0, st) + 1
        regions.append((fn_name(code, st), line0, paths, [(line0 + l, t) for l, t in panics]))
    other = [p for p in ("src/server/rpc_server.rs", "src/db/brc20_prog_database.rs") if TAKE.search(strip(open(os.path.join(REPO, p)).read()))]
    ev = {"take": ".take", "restore": ".restore", "exit": ".exit", "end": ".fin"}
    with open(OUT, "w") as f:
        f.write("/- GENERATED by tools/gen_slot.py from src/engine/engine.rs - do not edit. -/\n")
        f.write("import Brc20.Model.Slot\n\nnamespace Brc20.Gen\nopen Brc20.Slot\n\n")
        f.write("/-- (function, first line of the closure, control paths) of every closure that moves the database out -/\n")
        f.write("def slotRegions : List (String × Nat × List (List Ev)) := [\n")
        f.write(",\n".join('  ("%s", %d, [%s])' % (fn, ln, ", ".join("[" + ", ".join(ev[e] for e in p) + "]" for p in paths)) for fn, ln, paths, _ in regions))
        f.write("]\n\n")
        f.write("/-- operations between take and restore that can panic by themselves: (line, text) -/\n")
        allp = [(ln, t) for _, _, _, ps in regions for ln, t in ps]
        f.write("def slotPanicSites : List (Nat × String) := [%s]\n\n" % ", ".join('(%d, "%s")' % (ln, t.replace('"', "'")) for ln, t in allp))
        f.write("/-- other files that move the database out (expected: none; they would need their own regions) -/\n")
        f.write("def slotOtherFiles : List String := [%s]\n\n" % ", ".join('"%s"' % p for p in other))
        f.write("end Brc20.Gen\n")
    print("gen_slot: %d regions, %d paths, %d panic-capable sites while moved out" % (len(regions), sum(len(r[2]) for r in regions), len(allp)))


if __name__ == "__main__":
    main()
