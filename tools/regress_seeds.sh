#!/bin/bash
# regress_seeds.sh [seed ids...] : for every seeded change under /verif/seeded (or the ones named), apply it to /repo,
# run the quick check of its property, undo it; prints one line per seed (caught / MISSED) and keeps the check
# output in seeded/<id>/last_check.txt.  /repo must be clean; nothing else may use /repo meanwhile.
cd /verif
ids="$@"; [ -z "$ids" ] && ids=$(ls seeded)
for id in $ids; do
  d=seeded/$id
  prop=$(python3 -c "import json;print(json.load(open('$d/meta.json'))['property'])")
  [ -n "$(git -C /repo status --porcelain)" ] && { echo "/repo not clean"; exit 2; }
  git -C /repo apply /verif/$d/patch.diff || { echo "$id: PATCH DOES NOT APPLY"; continue; }
  VERIF_EVIDENCE_DIR=/verif/work/evidence_seeded ./check $prop > $d/last_check.txt 2>&1; rc=$?
  git -C /repo checkout -- .
  v=$(grep -c "^VIOLATION property=$prop" $d/last_check.txt)
  nf=$(grep -c "no-failing-input-found" $d/last_check.txt)
  if [ $rc -eq 1 ] && [ $v -ge 1 ]; then echo "$id ($prop): caught$([ $nf -ge 1 ] && echo ' (no-failing-input-found)')"; else echo "$id ($prop): MISSED rc=$rc"; fi
done
rm -rf work/L  # lock traces of a seeded tree must not feed the translator
for g in tools/gen_*.py; do python3 $g > /dev/null; done
