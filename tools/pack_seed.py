#!/usr/bin/env python3
"""pack_seed.py <pending dir> <seed id> <property> <confirm log> <check output file>
Copies patch.diff / demo.diff into /verif/seeded/<seed id>/ and writes meta.json (property, what it needs, what was run)."""
import json, os, shutil, sys
src, sid, prop, conf, chk = sys.argv[1:6]
dst = os.path.join(os.path.dirname(os.path.abspath(__file__)), "..", "seeded", sid)
os.makedirs(dst, exist_ok=True)
patch = "patch_rebased.diff" if os.path.exists(os.path.join(src, "patch_rebased.diff")) else "patch.diff"
shutil.copy(os.path.join(src, patch), os.path.join(dst, "patch.diff"))
shutil.copy(os.path.join(src, "demo.diff"), os.path.join(dst, "demo.diff"))
m = json.load(open(os.path.join(src, "meta.json")))
out = {
    "property": prop, "summary": m.get("summary"), "needs": m.get("needs"), "demo_cmd": m.get("demo_cmd"),
    "author": "independent sub-agent given only the property text and a scratch worktree",
    "confirmed": open(conf).read()[-1800:] if os.path.exists(conf) else conf,
    "check_result": open(chk).read()[-1500:] if os.path.exists(chk) else chk,
    "rebased": patch == "patch_rebased.diff",
}
json.dump(out, open(os.path.join(dst, "meta.json"), "w"), indent=1)
print("packed", sid)
