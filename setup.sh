#!/bin/bash
# Run once after a fresh restore, offline: builds the Lean project (model, proofs, driver) and the Rust harness.
set -e
cd "$(dirname "$0")"
export CARGO_NET_OFFLINE=true
python3 tools/gen_constants.py
for g in tools/gen_*.py; do python3 "$g"; done
(cd lean && lake build Brc20 brc20model)
cp -n /repo/Cargo.lock harness/Cargo.lock 2>/dev/null || true
(cd harness && cargo build --offline)
echo "setup done"
